import Jp.Lemmas.Bridge
import Jp.Props.C03
import Jp.Props.C04
/-
  C05 — Resolve is RFC 6901 evaluation: every node is addressable, by reference.
  Model: `resolve` (the `split_front` loop with position/offset). Spec: `walk` over the token list.
  A returned reference is the *location* of the node inside the document.
-/
namespace Jp.C05
open Jp Jp.Spec

def kindOf : ResolveErr → WalkKind
  | .failedToParseIndex .. => .parse
  | .outOfBounds .. => .oob
  | .notFound .. => .notFound
  | .unreachable .. => .unreachable

/-- forget offsets and payloads (those belong to C15): outcome, location, first failing step, kind -/
def absR : Res ResolveErr (Loc × Val) → Res (Nat × WalkKind) (Loc × Val)
  | .ok x => .ok x
  | .err e => .err (e.position, kindOf e)
  | .panic m => .panic m

/-- the token spelling of a location step: a key through `Token::new`, an index in decimal -/
def spell : Step → Bytes
  | .key k => (Token.new k).bytes
  | .idx i => decimal i

def PathFits (l : Loc) : Prop := ∀ i, Step.idx i ∈ l → i ≤ usizeMax

-- OBLIGATIONS
-- resolve_eq_walk resolve_returns_node walk_returns_node every_node_addressable pointer_of_node_unique
-- resolve_no_panic walk_error_kinds

/-! ### helper lemmas -/

theorem forLen_ok {i : Index} {len idx : Nat} (h : i.forLen len = .ok idx) :
    i = .num idx ∧ idx < len := by
  cases i with
  | next => simp [Index.forLen] at h
  | num k =>
    simp only [Index.forLen] at h
    split at h
    · cases h; exact ⟨rfl, by assumption⟩
    · cases h

theorem resolveT_walk (ts : List Bytes) (hv : ∀ t ∈ ts, validTok t = true) (v : Val)
    (o pos : Nat) (loc : Loc) :
    match walk v ts with
    | .ok (l, n) => resolveT ts v o pos loc = .ok (loc ++ l, n)
    | .err (k, kind) =>
        ∃ e, resolveT ts v o pos loc = .err e ∧ e.position = pos + k ∧ kindOf e = kind
    | .panic _ => False := by
  induction ts generalizing v o pos loc with
  | nil => simp [walk, resolveT]
  | cons t ts ih =>
    have ht : validTok t = true := hv t (by simp)
    have ih' := ih (fun u hu => hv u (by simp [hu]))
    have hd : (Token.decoded t).bytes = dec t := toString_eq_dec t ht
    cases v with
    | scalar a => simp [walk, resolveT, ResolveErr.position, kindOf]
    | obj kvs =>
      simp only [walk, resolveT, hd]
      cases hl : lookup (dec t) kvs with
      | none => simp [ResolveErr.position, kindOf]
      | some c =>
        simp only []
        have := ih' c (o + (1 + t.length)) (pos + 1) (loc ++ [.key (dec t)])
        cases hw : walk c ts with
        | ok r =>
          obtain ⟨l, n⟩ := r
          simp only [hw] at this ⊢
          simpa using this
        | err r =>
          obtain ⟨k, kind⟩ := r
          simp only [hw] at this ⊢
          obtain ⟨e, h1, h2, h3⟩ := this
          exact ⟨e, h1, by omega, h3⟩
        | panic m => simp [hw] at this
    | arr xs =>
      simp only [walk, resolveT]
      have hp := toIndex_pidx t
      cases hi : Token.toIndex t with
      | err e => 
        simp only [hi] at hp
        simp [hp, ResolveErr.position, kindOf]
      | panic m => simp [hi] at hp
      | ok i =>
        cases i with
        | next =>
          simp only [hi] at hp
          simp [hp, Index.forLen, ResolveErr.position, kindOf]
        | num k =>
          simp only [hi] at hp
          simp only [hp, Index.forLen]
          by_cases hk : k < xs.length
          · simp only [hk, if_true, List.getElem?_eq_getElem hk]
            have := ih' xs[k] (o + (1 + t.length)) (pos + 1) (loc ++ [.idx k])
            cases hw : walk xs[k] ts with
            | ok r =>
              obtain ⟨l, n⟩ := r
              simp only [hw] at this ⊢
              simpa using this
            | err r =>
              obtain ⟨k', kind⟩ := r
              simp only [hw] at this ⊢
              obtain ⟨e, h1, h2, h3⟩ := this
              exact ⟨e, h1, by omega, h3⟩
            | panic m => simp [hw] at this
          · simp [hk, ResolveErr.position, kindOf]

theorem resolve_eq_resolveT {p : Bytes} (hp : validPtr p = true) (D : Val) :
    ∃ ts, tokens p = ts ∧ (∀ t ∈ ts, validTok t = true) ∧ resolve D p = resolveT ts D 0 0 [] := by
  obtain ⟨ts, rfl, htok, hns, hv⟩ := valid_decomp hp
  exact ⟨ts, htok, hv, by unfold resolve; exact resolveLoop_ofToks ts hns D 0 0 []⟩

theorem resolveT_ok_walk {ts : List Bytes} (hv : ∀ t ∈ ts, validTok t = true) {D : Val}
    {l : Loc} {n : Val} (h : resolveT ts D 0 0 [] = .ok (l, n)) : walk D ts = .ok (l, n) := by
  have := resolveT_walk ts hv D 0 0 []
  cases hw : walk D ts with
  | ok r =>
    obtain ⟨l', n'⟩ := r
    simp only [hw] at this
    rw [h] at this
    simpa using this.symm
  | err r =>
    obtain ⟨k, kind⟩ := r
    simp only [hw] at this
    obtain ⟨e, h1, _⟩ := this
    rw [h] at h1; cases h1
  | panic m => simp [hw] at this

theorem pidx_num_le {t : Bytes} {i : Nat} (h : pidx t = .num i) : i ≤ usizeMax := by
  unfold pidx at h
  split at h
  · cases h
  · split at h
    · rename_i hv
      simp at h
      subst h
      simp only [validNum, Bool.or_eq_true, beq_iff_eq, Bool.and_eq_true, decide_eq_true_eq] at hv
      rcases hv with rfl | ⟨_, hm⟩
      · decide
      · exact hm
    · cases h

theorem spell_valid (s : Step) : validTok (spell s) = true := by
  cases s with
  | key k => simp only [spell, Jp.C03.new_encoded]; exact Jp.C03.enc_valid k
  | idx i => exact (Jp.C04.decimal_validTok i).1

theorem walk_spell (D : Val) (path : Loc) (n : Val) (hfit : PathFits path)
    (h : D.at path = some n) : walk D (path.map spell) = .ok (path, n) := by
  induction path generalizing D with
  | nil => simp [Val.at] at h; simp [walk, h]
  | cons s path ih =>
    have hfit' : PathFits path := fun i hi => hfit i (by simp [hi])
    cases s with
    | key k =>
      cases D with
      | scalar a => simp [Val.at] at h
      | arr xs => simp [Val.at] at h
      | obj kvs =>
        simp only [Val.at] at h
        cases hl : lookup k kvs with
        | none => simp [hl] at h
        | some c =>
          simp only [hl] at h
          have := ih c hfit' h
          simp [walk, spell, Jp.C03.new_encoded, Jp.C03.dec_enc, hl, this]
    | idx i =>
      have hi : i ≤ usizeMax := hfit i (by simp)
      cases D with
      | scalar a => simp [Val.at] at h
      | obj kvs => simp [Val.at] at h
      | arr xs =>
        simp only [Val.at] at h
        cases hl : xs[i]? with
        | none => simp [hl] at h
        | some c =>
          simp only [hl] at h
          have := ih c hfit' h
          simp [walk, spell, pidx_decimal i hi, hl, this]

theorem walk_unique (D : Val) (ts : List Bytes) (hv : ∀ t ∈ ts, validTok t = true) (l : Loc) (n : Val)
    (h : walk D ts = .ok (l, n)) : ts = l.map spell := by
  induction ts generalizing D l with
  | nil => simp [walk] at h; simp [← h.1]
  | cons t ts ih =>
    have ht : validTok t = true := hv t (by simp)
    have ih' := fun D' => ih D' (fun u hu => hv u (by simp [hu]))
    cases D with
    | scalar a => simp [walk] at h
    | obj kvs =>
      simp only [walk] at h
      cases hl : lookup (dec t) kvs with
      | none => simp [hl] at h
      | some c =>
        simp only [hl] at h
        cases hw : walk c ts with
        | ok r =>
          obtain ⟨l', n'⟩ := r
          simp only [hw, Res.ok.injEq, Prod.mk.injEq] at h
          obtain ⟨rfl, rfl⟩ := h
          simp [spell, Jp.C03.new_encoded, Jp.C03.enc_dec t ht, ← ih' c l' hw]
        | err r => obtain ⟨k, e⟩ := r; simp [hw] at h
        | panic m => simp [hw] at h
    | arr xs =>
      simp only [walk] at h
      cases hp : pidx t with
      | bad => simp [hp] at h
      | next => simp [hp] at h
      | num i =>
        simp only [hp] at h
        cases hl : xs[i]? with
        | none => simp [hl] at h
        | some c =>
          simp only [hl] at h
          cases hw : walk c ts with
          | ok r =>
            obtain ⟨l', n'⟩ := r
            simp only [hw, Res.ok.injEq, Prod.mk.injEq] at h
            obtain ⟨rfl, rfl⟩ := h
            have : t = decimal i := pidx_num_inj t (decimal i) i hp (pidx_decimal i (pidx_num_le hp))
            simp [spell, ← this, ← ih' c l' hw]
          | err r => obtain ⟨k, e⟩ := r; simp [hw] at h
          | panic m => simp [hw] at h

theorem walk_append (D : Val) (ts us : List Bytes) (l : Loc) (n : Val)
    (h : walk D ts = .ok (l, n)) :
    walk D (ts ++ us) = match walk n us with
      | .ok (l', n') => .ok (l ++ l', n')
      | .err (k, e) => .err (ts.length + k, e)
      | .panic m => .panic m := by
  induction ts generalizing D l with
  | nil =>
    simp [walk] at h
    obtain ⟨rfl, rfl⟩ := h
    cases hw : walk D us with
    | ok r => obtain ⟨l', n'⟩ := r; simp [hw]
    | err r => obtain ⟨k, e⟩ := r; simp [hw]
    | panic m => simp [hw]
  | cons t ts ih =>
    cases D with
    | scalar a => simp [walk] at h
    | obj kvs =>
      simp only [walk] at h
      cases hl : lookup (dec t) kvs with
      | none => simp [hl] at h
      | some c =>
        simp only [hl] at h
        cases hw : walk c ts with
        | ok r =>
          obtain ⟨l', n'⟩ := r
          simp only [hw, Res.ok.injEq, Prod.mk.injEq] at h
          obtain ⟨rfl, rfl⟩ := h
          have := ih c l' hw
          simp only [List.cons_append, walk, hl, this]
          cases hw2 : walk n' us with
          | ok r => obtain ⟨l2, n2⟩ := r; simp
          | err r => obtain ⟨k, e⟩ := r; simp; omega
          | panic m => simp
        | err r => obtain ⟨k, e⟩ := r; simp [hw] at h
        | panic m => simp [hw] at h
    | arr xs =>
      simp only [walk] at h
      cases hp : pidx t with
      | bad => simp [hp] at h
      | next => simp [hp] at h
      | num i =>
        simp only [hp] at h
        cases hl : xs[i]? with
        | none => simp [hl] at h
        | some c =>
          simp only [hl] at h
          cases hw : walk c ts with
          | ok r =>
            obtain ⟨l', n'⟩ := r
            simp only [hw, Res.ok.injEq, Prod.mk.injEq] at h
            obtain ⟨rfl, rfl⟩ := h
            have := ih c l' hw
            simp only [List.cons_append, walk, hp, hl, this]
            cases hw2 : walk n' us with
            | ok r => obtain ⟨l2, n2⟩ := r; simp
            | err r => obtain ⟨k, e⟩ := r; simp; omega
            | panic m => simp
          | err r => obtain ⟨k, e⟩ := r; simp [hw] at h
          | panic m => simp [hw] at h

theorem walk_at (D : Val) (ts : List Bytes) (l : Loc) (n : Val)
    (h : walk D ts = .ok (l, n)) : D.at l = some n := by
  induction ts generalizing D l with
  | nil => simp [walk] at h; obtain ⟨rfl, rfl⟩ := h; simp [Val.at]
  | cons t ts ih =>
    cases D with
    | scalar a => simp [walk] at h
    | obj kvs =>
      simp only [walk] at h
      cases hl : lookup (dec t) kvs with
      | none => simp [hl] at h
      | some c =>
        simp only [hl] at h
        cases hw : walk c ts with
        | ok r =>
          obtain ⟨l', n'⟩ := r
          simp only [hw, Res.ok.injEq, Prod.mk.injEq] at h
          obtain ⟨rfl, rfl⟩ := h
          simp [Val.at, hl, ih c l' hw]
        | err r => obtain ⟨k, e⟩ := r; simp [hw] at h
        | panic m => simp [hw] at h
    | arr xs =>
      simp only [walk] at h
      cases hp : pidx t with
      | bad => simp [hp] at h
      | next => simp [hp] at h
      | num i =>
        simp only [hp] at h
        cases hl : xs[i]? with
        | none => simp [hl] at h
        | some c =>
          simp only [hl] at h
          cases hw : walk c ts with
          | ok r =>
            obtain ⟨l', n'⟩ := r
            simp only [hw, Res.ok.injEq, Prod.mk.injEq] at h
            obtain ⟨rfl, rfl⟩ := h
            simp [Val.at, hl, ih c l' hw]
          | err r => obtain ⟨k, e⟩ := r; simp [hw] at h
          | panic m => simp [hw] at h

/-- success, location and the first failing step with its kind are those of RFC 6901 evaluation -/
theorem resolve_eq_walk (D : Val) (p : Bytes) (hp : validPtr p = true) :
    absR (resolve D p) = walk D (tokens p) := by
  obtain ⟨ts, htok, hv, hr⟩ := resolve_eq_resolveT hp D
  rw [htok, hr]
  have := resolveT_walk ts hv D 0 0 []
  cases hw : walk D ts with
  | ok r =>
    obtain ⟨l, n⟩ := r
    simp only [hw] at this
    simp [this, absR]
  | err r =>
    obtain ⟨k, kind⟩ := r
    simp only [hw] at this
    obtain ⟨e, h1, h2, h3⟩ := this
    simp [h1, absR, h2, h3]
  | panic m => simp [hw] at this

/-- the result is the very node at the returned location inside `D`, not a copy -/
theorem resolve_returns_node (D : Val) (p : Bytes) (l : Loc) (n : Val) (hp : validPtr p = true)
    (h : resolve D p = .ok (l, n)) : D.at l = some n := by
  obtain ⟨ts, _, hv, hr⟩ := resolve_eq_resolveT hp D
  rw [hr] at h
  exact walk_at D ts l n (resolveT_ok_walk hv h)

theorem walk_returns_node (D : Val) (ts : List Bytes) (l : Loc) (n : Val)
    (h : walk D ts = .ok (l, n)) : D.at l = some n := by
  exact walk_at D ts l n h

/-- for every node of every document the pointer built from its path resolves to that node -/
theorem every_node_addressable (D : Val) (path : Loc) (n : Val) (hfit : PathFits path)
    (h : D.at path = some n) :
    validPtr (fromTokens (path.map spell)) = true ∧
    resolve D (fromTokens (path.map spell)) = .ok (path, n) := by
  have hv : ∀ t ∈ path.map spell, validTok t = true := by
    intro t ht
    obtain ⟨s, _, rfl⟩ := List.mem_map.mp ht
    exact spell_valid s
  have hns : ∀ t ∈ path.map spell, noSlash t := fun t ht => validTok_noSlash (hv t ht)
  rw [fromTokens_eq_ofToks]
  refine ⟨validPtr_ofToks _ hv, ?_⟩
  unfold resolve
  rw [resolveLoop_ofToks _ hns]
  have := resolveT_walk (path.map spell) hv D 0 0 []
  rw [walk_spell D path n hfit h] at this
  simpa using this

/-- and nothing else resolves there: the pointer of a node is unique -/
theorem pointer_of_node_unique (D : Val) (p : Bytes) (l : Loc) (n : Val) (hp : validPtr p = true)
    (h : resolve D p = .ok (l, n)) : tokens p = l.map spell := by
  obtain ⟨ts, htok, hv, hr⟩ := resolve_eq_resolveT hp D
  rw [hr] at h
  rw [htok]
  exact walk_unique D ts hv l n (resolveT_ok_walk hv h)

theorem resolve_no_panic (D : Val) (p : Bytes) (hp : validPtr p = true) (m : String) :
    resolve D p ≠ .panic m := by
  obtain ⟨ts, _, hv, hr⟩ := resolve_eq_resolveT hp D
  rw [hr]
  intro hpanic
  have := resolveT_walk ts hv D 0 0 []
  cases hw : walk D ts with
  | ok r =>
    obtain ⟨l, n⟩ := r
    simp only [hw] at this
    rw [hpanic] at this; cases this
  | err r =>
    obtain ⟨k, kind⟩ := r
    simp only [hw] at this
    obtain ⟨e, h1, _⟩ := this
    rw [hpanic] at h1; cases h1
  | panic m' => simp [hw] at this

/-- the error kinds, spelled out for one failing step on top of a resolvable prefix -/
theorem walk_error_kinds (D : Val) (ts : List Bytes) (t : Bytes) (l : Loc) (n : Val)
    (h : walk D ts = .ok (l, n)) :
    (∀ a, n = .scalar a → walk D (ts ++ [t]) = .err (ts.length, .unreachable)) ∧
    (∀ kvs, n = .obj kvs → lookup (dec t) kvs = none → walk D (ts ++ [t]) = .err (ts.length, .notFound)) ∧
    (∀ xs, n = .arr xs → pidx t = .bad → walk D (ts ++ [t]) = .err (ts.length, .parse)) ∧
    (∀ xs, n = .arr xs → pidx t = .next → walk D (ts ++ [t]) = .err (ts.length, .oob)) ∧
    (∀ xs i, n = .arr xs → pidx t = .num i → xs.length ≤ i → walk D (ts ++ [t]) = .err (ts.length, .oob)) := by
  have hA := walk_append D ts [t] l n h
  refine ⟨?_, ?_, ?_, ?_, ?_⟩
  · rintro a rfl
    simpa [walk] using hA
  · rintro kvs rfl hl
    simpa [walk, hl] using hA
  · rintro xs rfl hp
    simpa [walk, hp] using hA
  · rintro xs rfl hp
    simpa [walk, hp] using hA
  · rintro xs i rfl hp hlen
    have : xs[i]? = none := by simp; omega
    simpa [walk, hp, this] using hA

example : walk (.obj [([126], .arr [.scalar [116]])]) [[126, 48], [48]] = .ok ([.key [126], .idx 0], .scalar [116]) := by
  rfl
example : walk (.arr [.scalar [116]]) [[48, 48]] = .err (0, .parse) := by rfl
example : walk (.arr [.scalar [116]]) [[45]] = .err (0, .oob) := by rfl

end Jp.C05
