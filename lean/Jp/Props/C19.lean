import Jp.Props.C02
import Jp.Props.C03
import Jp.Props.C12
import Jp.Props.C13
import Jp.Model.Glue
/-
  C19 — Documented zero-copy operations never allocate (partial: the allocator is runtime).
  In the model a result is either a *view / pass-through* of an argument (a `Span` of the receiver,
  `Cow.borrowed`, the input itself) or a *freshly built* buffer (`Cow.owned`). The theorems say that
  every operation the property lists yields a view or pass-through, for all inputs; which Rust
  expressions allocate is the hand annotation that the counting-allocator run validates.
-/
namespace Jp.C19
open Jp Jp.Spec

-- OBLIGATIONS
-- parse_passes_through parse_error_owns_nothing fromEncoded_passes_through new_borrows_iff
-- new_no_special_is_input decoded_borrows_iff decoded_no_escape_is_input token_is_view
-- splitFront_is_view splitBack_is_view splitAt_is_view range_is_view stripPrefix_is_view
-- stripSuffix_is_view intersection_is_view root_new_empty into_buf_moves

/-- a successful borrowed parse is the input itself (a view of the very same bytes) -/
theorem parse_passes_through (s t : Bytes) (h : Pointer.parse s = .ok t) : t = s :=
  C02.parse_ok_text s t h

/-- a failed parse returns a `ParseError`, which holds offsets only (no text) -/
theorem parse_error_owns_nothing (s : Bytes) (e : ParseError) (_h : Pointer.parse s = .err e) :
    e = .noLeadingSlash ∨ ∃ po so k, e = .invalidEncoding po so k := by
  cases e with
  | noLeadingSlash => exact Or.inl rfl
  | invalidEncoding po so k => exact Or.inr ⟨po, so, k, rfl⟩

theorem fromEncoded_passes_through (e t : Bytes) (h : Token.fromEncoded e = .ok t) : t = e :=
  C03.fromEncoded_verbatim e t h

/-- `Token::new` builds a buffer exactly when the text contains `~` or `/` -/
theorem new_borrows_iff (s : Bytes) : (Token.new s).fresh = false ↔ ¬ (47 ∈ s ∨ 126 ∈ s) := by
  rw [← C03.new_fresh_iff]; cases (Token.new s).fresh <;> simp

theorem new_no_special_is_input (s : Bytes) (h : ¬ (47 ∈ s ∨ 126 ∈ s)) : Token.new s = .borrowed s := by
  have hf := (new_borrows_iff s).mpr h
  unfold Token.new at hf ⊢
  split <;> simp_all [Cow.fresh]

/-- `decoded()` builds a buffer exactly when the token contains an escape — whatever its ownership -/
theorem decoded_borrows_iff (t : Bytes) : (Token.decoded t).fresh = false ↔ 126 ∉ t := by
  rw [← C03.decoded_fresh_iff]; cases (Token.decoded t).fresh <;> simp

theorem decoded_no_escape_is_input (t : Bytes) (h : 126 ∉ t) : Token.decoded t = .borrowed t := by
  have hf := (decoded_borrows_iff t).mpr h
  unfold Token.decoded at hf ⊢
  split <;> simp_all [Cow.fresh]

/-- every token yielded by `tokens()` / `components()` / `first` / `last` / `get(i)` is a sub-slice of
    the pointer's own bytes, at the offset of its `/` plus one -/
theorem token_is_view (p : Bytes) (i : Nat) (t : Bytes) (hp : validPtr p = true)
    (h : (tokens p)[i]? = some t) : (p.drop (off (tokens p) i + 1)).take t.length = t := by
  obtain ⟨ts, rfl, hts, hns, hv⟩ := valid_decomp hp
  rw [hts] at h ⊢
  have hd := drop_off ts i
  have hsplit : ts.drop i = t :: ts.drop (i + 1) := by
    have hi : i < ts.length := by
      rcases Nat.lt_or_ge i ts.length with hlt | hge
      · exact hlt
      · rw [List.getElem?_eq_none hge] at h; simp at h
    rw [List.getElem?_eq_getElem hi] at h
    have : ts[i] = t := by simpa using h
    rw [← this]
    exact List.drop_eq_getElem_cons hi
  rw [← List.drop_drop, hd, hsplit, ofToks_cons]
  simp

theorem splitFront_is_view (p tok : Bytes) (sp : Span) (h : splitFrontV p = some (tok, sp)) :
    ∃ rem, splitFront p = some (tok, rem) ∧ (p.drop sp.1).take (sp.2 - sp.1) = rem :=
  C12.splitFrontV_view p tok sp h

theorem splitBack_is_view (p tok : Bytes) (sp : Span) (h : splitBackV p = some (sp, tok)) :
    ∃ par, splitBack p = some (par, tok) ∧ (p.drop sp.1).take (sp.2 - sp.1) = par :=
  C12.splitBackV_view p tok sp h

theorem splitAt_is_view (p a b : Bytes) (k : Nat) (h : splitAt p k = some (a, b)) :
    a = p.take k ∧ b = p.drop k := by
  unfold splitAt at h
  split at h
  · simp at h
  · simp at h; exact ⟨h.1.symm, h.2.symm⟩

/-- every range form returns a span of the receiver: no buffer is built (`getBounds` covers the six
    range types through its nine pairings; the spans are those of `C12.getBounds_spec`) -/
theorem range_is_view (p : Bytes) (lo hi : Bound) (hp : validPtr p = true) :
    getBounds p lo hi = C12.spanOf p (boundsSpec (count p) lo hi) :=
  C12.getBounds_spec p lo hi hp

/-- `strip_prefix` returns a suffix of the receiver's bytes -/
theorem stripPrefix_is_view (p q r : Bytes) (h : ptrStripPrefix p q = some r) : p.drop q.length = r := by
  unfold ptrStripPrefix at h
  split at h
  · rename_i s hs
    split at h
    · simp at h; subst h
      have := (C13.stripPrefix_eq_some p q s).mp hs
      subst this; simp
    · simp at h
  · simp at h

/-- `strip_suffix` returns a prefix of the receiver's bytes -/
theorem stripSuffix_is_view (p q r : Bytes) (h : ptrStripSuffix p q = some r) :
    p.take (p.length - q.length) = r := by
  unfold ptrStripSuffix at h
  have := (C13.stripSuffix_eq_some p q r).mp h
  subst this; simp

/-- `intersection` returns a prefix of the receiver's bytes (or the static root) -/
theorem intersection_is_view (p q : Bytes) : ∃ n, intersection p q = p.take n := by
  unfold intersection
  split
  · exact ⟨0, by simp⟩
  · simp only
    split
    · rename_i head tail hs
      unfold splitAt at hs
      split at hs
      · simp at hs
      · simp at hs; exact ⟨_, hs.1.symm⟩
    · exact ⟨p.length, by simp⟩

/-- `Pointer::root()` and `PointerBuf::new()` are the empty text: nothing to allocate -/
theorem root_new_empty : clear [47, 97] = [] ∧ isRoot ([] : Bytes) = true := by
  constructor <;> rfl

/-- `Box<Pointer>::into_buf` moves the buffer -/
theorem into_buf_moves (b : Bytes) : intoBuf b = b := rfl

example : Token.new [97, 98] = .borrowed [97, 98] := by decide
example : (Token.decoded [97, 126, 48]).fresh = true := by decide

end Jp.C19
