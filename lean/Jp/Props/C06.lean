import Jp.Lemmas.Bridge
import Jp.Lemmas.C06Helpers
/-
  C06 — Assign follows the documented replace-or-expand rules exactly.
  Model: `assign` = `assignValue` (the `split_front` loop dispatching to array / object / scalar) and
  `expand` (the `split_back` loop). Spec: `assignSpec`, `expandSpec` over the token list.
-/
namespace Jp.C06
open Jp Jp.Spec

-- def kindOfA … : see Jp/Lemmas/C06Helpers.lean
--   def kindOfA : AssignErr → WalkKind
--     | .failedToParseIndex .. => .parse
--     | .outOfBounds .. => .oob

-- OBLIGATIONS
-- assign_eq_spec expand_eq_spec assign_root only_two_failures assign_no_panic spec_rules

/-- document afterwards and returned value are those of the declarative rules; on failure the kind
    agrees and the document is the old one -/
theorem assign_eq_spec (D v : Val) (p : Bytes) (hp : validPtr p = true) :
    (match assignSpec D (tokens p) v with
     | .ok (D', r) => assign D p v = (D', .ok r)
     | .err k => ∃ e, assign D p v = (D, .err e) ∧ kindOfA e = k
     | .panic _ => False) := by
  obtain ⟨ts, rfl, htok, hns, hv⟩ := valid_decomp hp
  have hdec : ∀ t ∈ ts, Token.toString t = dec t := fun t ht => toString_eq_dec t (hv t ht)
  rw [htok, assign, assignValue_ofToks ts hns hdec]
  exact assignT_spec ts hdec D v 0 0

/-- the remaining tokens are materialised around `v`: `"0"`/`"-"` ↦ one-element array, anything else ↦
    one-member object keyed by the decoded token -/
theorem expand_eq_spec (p : Bytes) (v : Val) (hp : validPtr p = true) :
    expand p v = expandSpec (tokens p) v := by
  obtain ⟨ts, rfl, htok, hns, hv⟩ := valid_decomp hp
  have hdec : ∀ t ∈ ts, Token.toString t = dec t := fun t ht => toString_eq_dec t (hv t ht)
  rw [htok, expand_ofToks ts hns hdec]

/-- assigning at the root replaces the whole document and returns it -/
theorem assign_root (D v : Val) : assign D [] v = (v, .ok (some D)) := by
  rw [assign, assignValue_none splitFront_nil]

/-- the only failures are a non-index token or an index greater than the length, on an existing array -/
theorem only_two_failures (D v : Val) (ts : List Bytes) (k : WalkKind) (h : assignSpec D ts v = .err k) :
    ∃ pre t post l xs, ts = pre ++ t :: post ∧ walk D pre = .ok (l, .arr xs) ∧
      ((k = .parse ∧ pidx t = .bad) ∨ (k = .oob ∧ ∃ i, pidx t = .num i ∧ xs.length < i)) := by
  induction ts generalizing D with
  | nil => simp [assignSpec] at h
  | cons t ts ih =>
    cases D with
    | scalar a => simp [assignSpec] at h
    | obj kvs =>
      simp only [assignSpec] at h
      cases hl : lookup (dec t) kvs with
      | none => simp [hl] at h
      | some c =>
        simp only [hl] at h
        cases hs : assignSpec c ts v with
        | ok dr => simp [hs] at h
        | panic m => simp [hs] at h
        | err e =>
          simp only [hs, Res.err.injEq] at h
          subst h
          obtain ⟨pre, t', post, l, xs, rfl, hw, hk⟩ := ih c hs
          exact ⟨t :: pre, t', post, .key (dec t) :: l, xs, rfl, by simp [walk, hl, hw], hk⟩
    | arr xs =>
      simp only [assignSpec] at h
      cases hpi : pidx t with
      | bad =>
        simp only [hpi, Res.err.injEq] at h
        exact ⟨[], t, ts, [], xs, rfl, by simp [walk], Or.inl ⟨h.symm, hpi⟩⟩
      | next => simp [hpi] at h
      | num i =>
        simp only [hpi] at h
        cases hx : xs[i]? with
        | none =>
          simp only [hx] at h
          split at h
          · simp at h
          · rename_i hne
            simp only [Res.err.injEq] at h
            have := List.getElem?_eq_none_iff.mp hx
            exact ⟨[], t, ts, [], xs, rfl, by simp [walk],
              Or.inr ⟨h.symm, i, hpi, by omega⟩⟩
        | some c =>
          simp only [hx] at h
          cases hs : assignSpec c ts v with
          | ok dr => simp [hs] at h
          | panic m => simp [hs] at h
          | err e =>
            simp only [hs, Res.err.injEq] at h
            subst h
            obtain ⟨pre, t', post, l, ys, rfl, hw, hk⟩ := ih c hs
            exact ⟨t :: pre, t', post, .idx i :: l, ys, rfl, by simp [walk, hpi, hx, hw], hk⟩

theorem assign_no_panic (D v : Val) (p : Bytes) (hp : validPtr p = true) (m : String) :
    (assign D p v).2 ≠ .panic m := by
  have h := assign_eq_spec D v p hp
  cases hs : assignSpec D (tokens p) v with
  | ok dr =>
    obtain ⟨D', r⟩ := dr
    rw [hs] at h; simp only [] at h
    simp [h]
  | err k =>
    rw [hs] at h
    obtain ⟨e, he, _⟩ := h
    simp [he]
  | panic m' => rw [hs] at h; exact h.elim

/-- the rules of `assignSpec`, spelled out on top of a resolvable prefix `pre` (node `n` at `l`) -/
theorem spec_rules (D v : Val) (pre : List Bytes) (t : Bytes) (rest : List Bytes) (l : Loc) (n : Val)
    (h : walk D pre = .ok (l, n)) :
    -- whole path exists: replaced and returned
    (∀ l' w, walk D (pre ++ t :: rest) = .ok (l', w) →
      assignSpec D (pre ++ t :: rest) v = .ok (D.setAt l' v, some w)) ∧
    -- missing object member: inserted
    (∀ kvs, n = .obj kvs → lookup (dec t) kvs = none →
      assignSpec D (pre ++ t :: rest) v = .ok (D.setAt l (.obj (kvs ++ [(dec t, expandSpec rest v)])), none)) ∧
    -- array position equal to the length (numeric or '-'): appended
    (∀ xs, n = .arr xs → (pidx t = .next ∨ pidx t = .num xs.length) →
      assignSpec D (pre ++ t :: rest) v = .ok (D.setAt l (.arr (xs ++ [expandSpec rest v])), none)) ∧
    -- scalar in the middle of the path: substituted, old value returned
    (∀ a, n = .scalar a →
      assignSpec D (pre ++ t :: rest) v = .ok (D.setAt l (expandSpec (t :: rest) v), some (.scalar a))) := by
  have hpre := assignSpec_prefix v (t :: rest) pre D l n h
  refine ⟨fun l' w hw => assignSpec_of_walk v _ D l' w hw, ?_, ?_, ?_⟩
  · rintro kvs rfl hl
    rw [hpre]; simp [assignSpec, hl]
  · rintro xs rfl hpi
    rw [hpre]
    rcases hpi with hpi | hpi
    · simp [assignSpec, hpi]
    · simp [assignSpec, hpi]
  · rintro a rfl
    rw [hpre]; simp [assignSpec]

example : assignSpec (.obj []) [[97], [45], [48, 48]] (.scalar [116]) =
    .ok (.obj [([97], .arr [.obj [([48, 48], .scalar [116])]])], none) := by rfl

end Jp.C06
