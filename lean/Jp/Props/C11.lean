import Jp.Lemmas.Valid
import Jp.Props.C03
import Jp.Lemmas.C11Helpers
/-
  C11 — PointerBuf under any mutation sequence behaves like a deque of decoded tokens.
  Abstraction: `abs s = tokens s` (the encoded tokens; decoding is injective on valid tokens, C03).
  `bufStep` is the model's byte-level mutator, `dequeStep` the list operation (Jp/Spec/Tree.lean).
-/
namespace Jp.C11
open Jp Jp.Spec

-- def OpOK … : see Jp/Lemmas/C11Helpers.lean
-- arguments a caller can supply through the safe API: valid tokens / valid pointers
--   def OpOK : BufOp → Prop
--     | .pushFront t => validTok t = true
--     | .pushBack t => validTok t = true
--     | .append o => validPtr o = true
--     | .replace _ t => validTok t = true
--     | _ => True

-- def runBuf … : see Jp/Lemmas/C11Helpers.lean
--   def runBuf (s : Bytes) : List BufOp → Bytes × List BufRet
--     | [] => (s, [])
--     | op :: ops =>
--       let (s', r) := bufStep s op
--       let (s'', rs) := runBuf s' ops
--       (s'', r :: rs)

-- def runDeque … : see Jp/Lemmas/C11Helpers.lean
--   def runDeque (ts : List Bytes) : List BufOp → List Bytes × List BufRet
--     | [] => (ts, [])
--     | op :: ops =>
--       let (ts', r) := dequeStep ts op
--       let (ts'', rs) := runDeque ts' ops
--       (ts'', r :: rs)

-- OBLIGATIONS
-- step_refines history_refines history_text replace_out_of_range append_root_left append_root_right
-- append_tokens history_decoded

/-- one commuting square per mutator: new token list, returned value, validity preserved -/
theorem step_refines (s : Bytes) (op : BufOp) (hs : validPtr s = true) (hop : OpOK op) :
    tokens (bufStep s op).1 = (dequeStep (tokens s) op).1 ∧
    (bufStep s op).2 = (dequeStep (tokens s) op).2 ∧
    validPtr (bufStep s op).1 = true := by
  obtain ⟨ts, rfl, hts, hns, hv⟩ := valid_decomp hs
  rw [hts, bufStep_ofToks ts hns op hop]
  have hv' := dequeStep_valid ts op hv hop
  exact ⟨tokens_ofToks _ (noSlash_of_valid hv'), rfl, validPtr_ofToks _ hv'⟩

/-- every finite history: the buffer is the deque, every call returned what the deque returns -/
theorem history_refines (s : Bytes) (ops : List BufOp) (hs : validPtr s = true)
    (hops : ∀ op ∈ ops, OpOK op) :
    tokens (runBuf s ops).1 = (runDeque (tokens s) ops).1 ∧
    (runBuf s ops).2 = (runDeque (tokens s) ops).2 ∧
    validPtr (runBuf s ops).1 = true := by
  obtain ⟨ts, rfl, hts, hns, hv⟩ := valid_decomp hs
  obtain ⟨h1, h2⟩ := run_ofToks ts ops hv hops
  rw [hts, h1]
  exact ⟨tokens_ofToks _ (noSlash_of_valid h2), rfl, validPtr_ofToks _ h2⟩

/-- … and the buffer's text is `from_tokens` of the deque -/
theorem history_text (s : Bytes) (ops : List BufOp) (hs : validPtr s = true)
    (hops : ∀ op ∈ ops, OpOK op) :
    (runBuf s ops).1 = fromTokens (runDeque (tokens s) ops).1 := by
  obtain ⟨ts, rfl, hts, hns, hv⟩ := valid_decomp hs
  obtain ⟨h1, _⟩ := run_ofToks ts ops hv hops
  rw [hts, h1, fromTokens_eq_ofToks]

/-- in terms of *decoded* strings: the text is `from_tokens` of the decoded deque re-encoded -/
theorem history_decoded (s : Bytes) (ops : List BufOp) (hs : validPtr s = true)
    (hops : ∀ op ∈ ops, OpOK op) :
    (runBuf s ops).1 =
      fromTokens (((runDeque (tokens s) ops).1.map fun t => (Token.decoded t).bytes).map
        fun d => (Token.new d).bytes) := by
  obtain ⟨ts, rfl, hts, hns, hv⟩ := valid_decomp hs
  obtain ⟨h1, h2⟩ := run_ofToks ts ops hv hops
  rw [hts, recode_valid _ h2, h1, fromTokens_eq_ofToks]

/-- out-of-range replace leaves the pointer unchanged and reports `(index, count)`, for every index -/
theorem replace_out_of_range (s tok : Bytes) (index : Nat) (hs : validPtr s = true)
    (h : count s ≤ index) : replace s index tok = (s, .err ⟨index, count s⟩) := by
  have _ := hs
  unfold replace
  split
  · rfl
  · have h' : index ≥ (tokens s).length := h
    simp only [h', if_true, count]

theorem append_root_left (o : Bytes) : append [] o = o := by
  simp [append, isRoot]

theorem append_root_right (s : Bytes) : append s [] = s := by
  cases s <;> simp [append, isRoot]

theorem append_tokens (s o : Bytes) (hs : validPtr s = true) (ho : validPtr o = true) :
    tokens (append s o) = tokens s ++ tokens o := by
  obtain ⟨ts, rfl, hts, hns, hv⟩ := valid_decomp hs
  rw [hts, append_ofToks ts o ho]
  refine tokens_ofToks _ ?_
  intro t ht
  rcases List.mem_append.mp ht with h | h
  · exact hns t h
  · exact tokens_all_noSlash o t h

example : OpOK (.pushFront [126, 48]) ∧ validPtr [47, 97, 47] = true := by
  constructor
  · show validTok [126, 48] = true; decide
  · decide
example : (runBuf [47, 97] [.pushFront [126, 48], .popBack, .popBack, .popBack]).1 = [] := by decide

end Jp.C11
