import Jp.Lemmas.Bridge
import Jp.Lemmas.C15Helpers
import Jp.Lemmas.C15Bounds
/-
  C15 — Resolve and assign errors locate the failing token by index and byte offset.
-/
namespace Jp.C15
open Jp Jp.Spec

-- def Locates … : see Jp/Lemmas/C15Helpers.lean
-- what C15 demands of `(position, offset, label)` for a failed walk on pointer text `p`
--   def Locates (p : Bytes) (position offset : Nat) (label : Option (Nat × Nat)) : Prop :=
--     ∃ tok, (tokens p)[position]? = some tok ∧
--       offset = off (tokens p) position ∧
--       getToken p position = some tok ∧
--       splitAt p offset = some (ofToks ((tokens p).take position), ofToks ((tokens p).drop position)) ∧
--       ∃ o l, label = some (o, l) ∧ l = tok.length ∧ o + l ≤ p.length ∧
--         (0 < l → o = offset + 1) ∧ (l = 0 → o = offset ∨ o = offset + 1)

-- OBLIGATIONS
-- resolve_err_locates resolveMut_err_locates assign_err_locates resolve_payload assign_payload
-- label_covers_token
-- error_offsets_bounded assign_error_offsets_bounded

/-! ### the obligations -/

theorem resolve_err_locates (D : Val) (p : Bytes) (e : ResolveErr) (hp : validPtr p = true)
    (h : resolve D p = .err e) : Locates p e.position e.offset (e.label p) := by
  obtain ⟨k, tok, l, n, _, _, hf, hl⟩ := resolve_core D p e hp h
  obtain ⟨h1, h2⟩ := RFail_pos hf
  rw [ResolveErr.label, h1, h2]; exact hl

theorem resolveMut_err_locates (D : Val) (p : Bytes) (e : ResolveErr) (hp : validPtr p = true)
    (h : resolveMut D p = .err e) : Locates p e.position e.offset (e.label p) := by
  obtain ⟨k, tok, l, n, _, _, hf, hl⟩ := resolveMut_core D p e hp h
  obtain ⟨h1, h2⟩ := RFail_pos hf
  rw [ResolveErr.label, h1, h2]; exact hl

theorem assign_err_locates (D v : Val) (p : Bytes) (e : AssignErr) (hp : validPtr p = true)
    (h : (assign D p v).2 = .err e) : Locates p e.position e.offset (e.label p) := by
  obtain ⟨k, tok, l, n, _, _, hf, hl⟩ := assign_core D v p e hp h
  obtain ⟨h1, h2⟩ := AFail_pos hf
  rw [AssignErr.label, h1, h2]; exact hl

/-- the payloads: an out-of-bounds error carries the requested index (`-` counting as the length)
    and the length of the array reached by the preceding tokens; an index-parse error carries the
    reason `Index::from_str` gives for the token's own text -/
theorem resolve_payload (D : Val) (p : Bytes) (hp : validPtr p = true) :
    (∀ pos o len idx, resolve D p = .err (.outOfBounds pos o ⟨len, idx⟩) →
      ∃ l xs tok, walk D ((tokens p).take pos) = .ok (l, .arr xs) ∧ (tokens p)[pos]? = some tok ∧
        len = xs.length ∧ ((tok = [45] ∧ idx = len) ∨ (pidx tok = .num idx ∧ len ≤ idx))) ∧
    (∀ pos o src, resolve D p = .err (.failedToParseIndex pos o src) →
      ∃ l xs tok, walk D ((tokens p).take pos) = .ok (l, .arr xs) ∧ (tokens p)[pos]? = some tok ∧
        Index.fromStr tok = .err src) := by
  constructor
  · intro pos o len idx h
    obtain ⟨k, tok, l, n, h1, h2, hf, _⟩ := resolve_core D p _ hp h
    rcases hf with ⟨_, _, he⟩ | ⟨_, _, he⟩ | ⟨_, _, _, _, he⟩ | ⟨xs, idx', rfl, he, hc⟩
    · cases he
    · cases he
    · cases he
    · cases he
      exact ⟨l, xs, tok, h2, h1, rfl, hc⟩
  · intro pos o src h
    obtain ⟨k, tok, l, n, h1, h2, hf, _⟩ := resolve_core D p _ hp h
    rcases hf with ⟨_, _, he⟩ | ⟨_, _, he⟩ | ⟨xs, src', rfl, hs, he⟩ | ⟨_, _, _, he, _⟩
    · cases he
    · cases he
    · cases he
      exact ⟨l, xs, tok, h2, h1, hs⟩
    · cases he

theorem assign_payload (D v : Val) (p : Bytes) (hp : validPtr p = true) :
    (∀ pos o len idx, (assign D p v).2 = .err (.outOfBounds pos o ⟨len, idx⟩) →
      ∃ l xs tok, walk D ((tokens p).take pos) = .ok (l, .arr xs) ∧ (tokens p)[pos]? = some tok ∧
        len = xs.length ∧ pidx tok = .num idx ∧ len < idx) ∧
    (∀ pos o src, (assign D p v).2 = .err (.failedToParseIndex pos o src) →
      ∃ l xs tok, walk D ((tokens p).take pos) = .ok (l, .arr xs) ∧ (tokens p)[pos]? = some tok ∧
        Index.fromStr tok = .err src) := by
  constructor
  · intro pos o len idx h
    obtain ⟨k, tok, l, n, h1, h2, hf, _⟩ := assign_core D v p _ hp h
    rcases hf with ⟨_, _, _, _, he⟩ | ⟨xs, idx', rfl, he, hc⟩
    · cases he
    · cases he
      exact ⟨l, xs, tok, h2, h1, rfl, hc⟩
  · intro pos o src h
    obtain ⟨k, tok, l, n, h1, h2, hf, _⟩ := assign_core D v p _ hp h
    rcases hf with ⟨xs, src', rfl, hs, he⟩ | ⟨_, _, _, he, _⟩
    · cases he
      exact ⟨l, xs, tok, h2, h1, hs⟩
    · cases he

/-- the label covers exactly the culprit's bytes inside `p` -/
theorem label_covers_token (p : Bytes) (position : Nat) (tok : Bytes) (hp : validPtr p = true)
    (ht : (tokens p)[position]? = some tok) (hl : 0 < tok.length) :
    ∃ o l, walkLabel p position (off (tokens p) position) = some (o, l) ∧
      (p.drop o).take l = tok := by
  obtain ⟨ts, hpe, htk, hns, hv⟩ := valid_decomp hp
  rw [htk] at ht ⊢
  have hle := off_step_le ts position tok ht
  rw [← hpe] at hle
  have hg : getToken p position = some tok := by simp only [getToken, htk]; exact ht
  have hlt : off ts position + 1 < p.length := by omega
  refine ⟨off ts position + 1, tok.length, by simp [walkLabel, hg, hlt], ?_⟩
  rw [← List.drop_drop, hpe, drop_off, drop_of_get ts position tok ht, ofToks_cons]
  simp

/-- the `usize` accumulators `position` / `offset` of the resolve walk, as reported by an error, lie
    strictly inside the pointer text (and the token count is at most its length): they are far from
    `usize::MAX` for any text that fits in memory -/
theorem error_offsets_bounded (D : Val) (p : Bytes) (e : ResolveErr) (hp : validPtr p = true)
    (h : resolve D p = .err e) :
    e.offset < p.length ∧ e.position < count p ∧ count p ≤ p.length := by
  obtain ⟨h1, h2⟩ := locates_bounded p _ _ _ hp (resolve_err_locates D p e hp h)
  exact ⟨h1, h2, Bounds.count_le_length p hp⟩

/-- the same for the assign walk -/
theorem assign_error_offsets_bounded (D v : Val) (p : Bytes) (e : AssignErr) (hp : validPtr p = true)
    (h : (assign D p v).2 = .err e) :
    e.offset < p.length ∧ e.position < count p :=
  locates_bounded p _ _ _ hp (assign_err_locates D v p e hp h)

example : Locates [47, 97, 47] 1 2 (some (2, 0)) := by
  refine ⟨[], by decide, by decide, by decide, by decide, 2, 0, rfl, rfl, by decide, by decide, by decide⟩

end Jp.C15
