import Jp.Lemmas.Text
import Jp.Lemmas.C03Helpers
/-
  C03 — Token escaping is a bijection: decode(encode(s)) = s and validation is exact.

  Model: `Token.new`, `Token.decoded`, `Token.fromEncoded` (flag scanners of `src/token.rs`).
  Spec : `enc`, `dec`, `validTok`, `firstBad`.
-/
namespace Jp.C03
open Jp Jp.Spec

-- def badTildeAt … : see Jp/Lemmas/C03Helpers.lean
-- a `~` at index `i` that is not followed by `0` or `1`
--   def badTildeAt (e : Bytes) (i : Nat) : Prop :=
--     e[i]? = some 126 ∧ e[i + 1]? ≠ some 48 ∧ e[i + 1]? ≠ some 49

-- OBLIGATIONS
-- new_encoded decoded_new dec_enc enc_valid enc_dec enc_injective decoded_eq_dec
-- fromEncoded_ok_iff fromEncoded_verbatim fromEncoded_decoded fromEncoded_reencode
-- fromEncoded_err_truthful fromEncoded_no_panic new_fresh_iff decoded_fresh_iff

/-- `Token::new(s).encoded()` is `s` with `~`→`~0`, `/`→`~1` -/
theorem new_encoded (s : Bytes) : (Token.new s).bytes = enc s := by
  unfold Token.new
  split
  · rename_i i hi
    simp only [Cow.bytes, encodeFrom_eq_enc]
    exact take_enc_of_position_some s i hi
  · rename_i hi
    simp only [Cow.bytes]
    exact (enc_of_position_none s hi).symm

/-- `dec ∘ enc = id` on all strings -/
theorem dec_enc (s : Bytes) : dec (enc s) = s := by
  induction s with
  | nil => simp [enc, dec]
  | cons b r ih =>
    by_cases h2 : b = 126
    · subst h2; simp [enc, dec, ih]
    · by_cases h1 : b = 47
      · subst h1; simp [enc, dec, ih]
      · simp only [enc, h1, h2, if_false]
        rw [dec_cons_ne b _ h2, ih]

/-- every encoded string is a valid token -/
theorem enc_valid (s : Bytes) : validTok (enc s) = true :=
  (validTok_iff _).mpr ⟨enc_noSlash s, enc_tildesOk s⟩

/-- `enc ∘ dec = id` on valid tokens: with `dec_enc`, a bijection strings ⟷ valid tokens -/
theorem enc_dec (e : Bytes) (h : validTok e = true) : enc (dec e) = e := by
  obtain ⟨h1, h2⟩ := (validTok_iff e).mp h
  exact enc_dec_aux e h1 h2

theorem enc_injective (s t : Bytes) (h : enc s = enc t) : s = t := by
  have := congrArg dec h; simpa [dec_enc] using this

/-- the scanner of `Token::decoded` computes the inverse mapping on every valid token -/
theorem decoded_eq_dec (e : Bytes) (h : validTok e = true) : (Token.decoded e).bytes = dec e := by
  obtain ⟨_, h2⟩ := (validTok_iff e).mp h
  unfold Token.decoded
  split
  · rename_i i hi
    simp only [Cow.bytes]
    exact decoded_aux e i hi h2
  · rename_i hi
    simp only [Cow.bytes]
    exact (dec_of_position_none e hi).symm

/-- `Token::new(s).decoded() == s` ("~1" encodes to "~01" and decodes back to "~1", never "/") -/
theorem decoded_new (s : Bytes) : (Token.decoded (Token.new s).bytes).bytes = s := by
  rw [new_encoded, decoded_eq_dec _ (enc_valid s), dec_enc]

/-- `Token::from_encoded(e)` succeeds exactly on valid tokens -/
theorem fromEncoded_ok_iff (e : Bytes) : (∃ t, Token.fromEncoded e = .ok t) ↔ validTok e = true := by
  obtain ⟨h1, h2, h3⟩ := loop_spec e 0
  rw [← firstBad_none_iff]
  unfold Token.fromEncoded
  cases hl : fromEncodedLoop e 0 false with
  | ok b =>
    cases b with
    | false => simp [h1 hl]
    | true =>
      obtain ⟨f, hf, _⟩ := h2 hl
      simp [hf]
  | err x =>
    obtain ⟨k, kind⟩ := x
    obtain ⟨j, f, _, hf, _⟩ := h3 k kind hl
    simp [hf]
  | panic m => exact absurd hl (loop_no_panic e 0 false m)

/-- … preserving `e` verbatim -/
theorem fromEncoded_verbatim (e t : Bytes) (h : Token.fromEncoded e = .ok t) : t = e := by
  unfold Token.fromEncoded at h
  split at h <;> simp at h
  exact h.symm

/-- … decoding by the inverse mapping -/
theorem fromEncoded_decoded (e t : Bytes) (h : Token.fromEncoded e = .ok t) :
    (Token.decoded t).bytes = dec e := by
  have hv := (fromEncoded_ok_iff e).mp ⟨t, h⟩
  rw [fromEncoded_verbatim e t h]
  exact decoded_eq_dec e hv

/-- … and re-encoding the decoded text gives `e` again -/
theorem fromEncoded_reencode (e t : Bytes) (h : Token.fromEncoded e = .ok t) :
    (Token.new (Token.decoded t).bytes).bytes = e := by
  have hv := (fromEncoded_ok_iff e).mp ⟨t, h⟩
  rw [fromEncoded_decoded e t h, new_encoded, enc_dec e hv]

/-- a rejection is truthful: with `f` the first offending byte, the reported offset is `f` or `f+1`
    (so nothing earlier is invalid); kind slash names a `/` at the offset; kind tilde names a `~`
    not followed by `0`/`1` at the offset or the byte before it -/
theorem fromEncoded_err_truthful (e : Bytes) (k : Nat) (kind : EncKind)
    (h : Token.fromEncoded e = .err ⟨k, kind⟩) :
    ∃ f, firstBad e = some f ∧ (f = k ∨ f + 1 = k) ∧
      (kind = .slash → e[k]? = some 47) ∧
      (kind = .tilde → badTildeAt e k ∨ (1 ≤ k ∧ badTildeAt e (k - 1))) := by
  obtain ⟨_, h2, h3⟩ := loop_spec e 0
  unfold Token.fromEncoded at h
  split at h
  · rename_i x hl
    simp at h; subst h
    obtain ⟨j, f, hk, hf, hfj, hs, ht⟩ := h3 k kind hl
    have : k = j := by omega
    subst this
    exact ⟨f, hf, hfj, hs, ht⟩
  · simp at h
  · rename_i hl
    simp at h
    obtain ⟨rfl, rfl⟩ := h
    obtain ⟨f, hf, hlen, hg⟩ := h2 hl
    refine ⟨f, hf, Or.inr hlen, by simp, fun _ => Or.inr ⟨by omega, ?_⟩⟩
    have : e.length - 1 = f := by omega
    rw [this]
    refine ⟨hg, ?_, ?_⟩ <;> simp [hlen]
  · simp at h

theorem fromEncoded_no_panic (e : Bytes) (m : String) : Token.fromEncoded e ≠ .panic m := by
  unfold Token.fromEncoded
  split <;> simp
  rename_i m' hl
  exact absurd hl (loop_no_panic e 0 false m')

/-- C19 facet: `Token::new` builds a buffer exactly when the text contains `~` or `/` -/
theorem new_fresh_iff (s : Bytes) : (Token.new s).fresh = true ↔ (47 ∈ s ∨ 126 ∈ s) := by
  have hp := position_isSome_iff (fun b => b == 47 || b == 126) s
  have hm : (∃ b ∈ s, (fun b => b == 47 || b == 126) b = true) ↔ (47 ∈ s ∨ 126 ∈ s) := by
    constructor
    · rintro ⟨b, hb, h⟩
      simp at h
      rcases h with rfl | rfl
      · exact Or.inl hb
      · exact Or.inr hb
    · rintro (h | h)
      · exact ⟨47, h, by simp⟩
      · exact ⟨126, h, by simp⟩
  rw [← hm, ← hp]
  unfold Token.new
  split
  · rename_i i hi; simp [Cow.fresh, hi]
  · rename_i hi; simp [Cow.fresh, hi]

/-- C19 facet: `decoded()` builds a buffer exactly when the encoded text contains `~` -/
theorem decoded_fresh_iff (t : Bytes) : (Token.decoded t).fresh = true ↔ 126 ∈ t := by
  have hp := position_isSome_iff (fun b => b == 126) t
  have hm : (∃ b ∈ t, (fun b => b == 126) b = true) ↔ 126 ∈ t := by
    constructor
    · rintro ⟨b, hb, h⟩
      simp at h
      subst h
      exact hb
    · intro h
      exact ⟨126, h, by simp⟩
  rw [← hm, ← hp]
  unfold Token.decoded
  split
  · rename_i i hi; simp [Cow.fresh, hi]
  · rename_i hi; simp [Cow.fresh, hi]

/-! non-vacuity and regression examples -/
example : validTok [126, 48, 126, 49, 97] = true := by decide
example : enc [126, 49] = [126, 48, 49] ∧ dec [126, 48, 49] = [126, 49] := by decide
example : Token.fromEncoded [126, 126, 48] = .err ⟨1, .tilde⟩ := by decide   -- was Ok before a6b872b
example : Token.fromEncoded [97, 126] = .err ⟨2, .tilde⟩ := by decide        -- was Slash before 4106b2d
example : Token.fromEncoded [126, 47] = .err ⟨1, .slash⟩ := by decide

end Jp.C03
