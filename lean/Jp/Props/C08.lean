import Jp.Lemmas.Bridge
import Jp.Lemmas.C08Helpers
/-
  C08 — Delete removes exactly what resolve finds, else does nothing — never panics.
  Model: `delete` = `split_back`, `resolve_mut` on the parent, `for_len` then `Vec::remove` (panics iff
  idx ≥ len) / `Map::remove`. Spec: `deleteSpec` = `walk` + `removeAt`.
-/
namespace Jp.C08
open Jp Jp.Spec

-- OBLIGATIONS
-- delete_eq_spec delete_some_iff_resolves delete_none_unchanged delete_no_panic delete_root
-- removeAt_array removeAt_object removed_member_gone removeAt_frame

/-! ### the main theorems -/

/-- return value and document afterwards are those of the declarative rule -/
theorem delete_eq_spec (b : Backend) (D : Val) (p : Bytes) (hp : validPtr p = true) :
    delete b D p = ((deleteSpec b D (tokens p)).1, .ok (deleteSpec b D (tokens p)).2) := by
  obtain ⟨ts, rfl, htk, hns, hv⟩ := valid_decomp hp
  rw [htk]
  exact delete_ofToks b D ts hns hv

/-- `Some(v)` exactly when `p` resolves, `v` being the resolved value -/
theorem delete_some_iff_resolves (b : Backend) (D : Val) (p : Bytes) (v : Val) (hp : validPtr p = true) :
    (delete b D p).2 = .ok (some v) ↔ ∃ l, resolve D p = .ok (l, v) := by
  rw [delete_eq_spec b D p hp]
  obtain ⟨ts, rfl, htk, hns, hv⟩ := valid_decomp hp
  rw [htk, resolve_ofToks D ts hns]
  have hr := resolveT_walk ts hv D 0 0 []
  cases ts with
  | nil => simp [deleteSpec, resolveT, eq_comm]
  | cons t ts =>
    rw [deleteSpec_ne_nil b D _ (by simp)]
    cases hw : walk D (t :: ts) with
    | panic m => simp only [hw] at hr
    | err x =>
      simp only [hw] at hr
      obtain ⟨e, he⟩ := hr
      simp [he]
    | ok ln =>
      obtain ⟨l, n⟩ := ln
      simp only [hw, List.nil_append] at hr
      simp [hr, eq_comm]

/-- in every other case: `None`, document unchanged -/
theorem delete_none_unchanged (b : Backend) (D : Val) (p : Bytes) (e : ResolveErr) (hp : validPtr p = true)
    (h : resolve D p = .err e) : delete b D p = (D, .ok none) := by
  rw [delete_eq_spec b D p hp]
  obtain ⟨ts, rfl, htk, hns, hv⟩ := valid_decomp hp
  rw [htk]
  rw [resolve_ofToks D ts hns] at h
  have hr := resolveT_walk ts hv D 0 0 []
  cases ts with
  | nil => simp [resolveT] at h
  | cons t ts =>
    rw [deleteSpec_ne_nil b D _ (by simp)]
    cases hw : walk D (t :: ts) with
    | panic m => simp only [hw] at hr
    | err x => rfl
    | ok ln =>
      obtain ⟨l, n⟩ := ln
      simp only [hw] at hr
      rw [hr] at h
      cases h

/-- no pointer makes delete panic (in particular index = length, index > length, `-`, empty arrays) -/
theorem delete_no_panic (b : Backend) (D : Val) (p : Bytes) (hp : validPtr p = true) (m : String) :
    (delete b D p).2 ≠ .panic m := by
  rw [delete_eq_spec b D p hp]
  simp

/-- deleting the root returns the whole document and leaves null / an empty table -/
theorem delete_root (b : Backend) (D : Val) : delete b D [] = (rootRepl b, .ok (some D)) := by
  simp [delete, splitBack_nil]

/-- removing an array element: the parent is shorter by one, successors shift down -/
theorem removeAt_array (D : Val) (l : Loc) (i : Nat) (xs : List Val) (h : D.at l = some (.arr xs))
    (hi : i < xs.length) :
    removeAt D (l ++ [.idx i]) = D.setAt l (.arr (xs.eraseIdx i)) ∧
    (xs.eraseIdx i).length = xs.length - 1 ∧
    (∀ j, j < i → (xs.eraseIdx i)[j]? = xs[j]?) ∧ (∀ j, i ≤ j → (xs.eraseIdx i)[j]? = xs[j + 1]?) := by
  refine ⟨?_, ?_, ?_, ?_⟩
  · rw [removeAt_snoc D l _ _ h]; simp [removeAt]
  · simp [List.length_eraseIdx, hi]
  · intro j hj; exact List.getElem?_eraseIdx_of_lt hj
  · intro j hj; exact List.getElem?_eraseIdx_of_ge hj

/-- removing an object member: just that member goes -/
theorem removeAt_object (D : Val) (l : Loc) (k : Bytes) (kvs : List (Bytes × Val))
    (h : D.at l = some (.obj kvs)) (hk : (lookup k kvs).isSome = true) :
    removeAt D (l ++ [.key k]) = D.setAt l (.obj (eraseKey k kvs)) ∧
    (∀ k', k' ≠ k → lookup k' (eraseKey k kvs) = lookup k' kvs) := by
  have _ := hk
  refine ⟨?_, fun k' hk' => lookup_eraseKey_ne k k' kvs hk'⟩
  rw [removeAt_snoc D l _ _ h]; simp [removeAt]

/-- in a well-formed document (unique keys) the removed member no longer resolves -/
theorem removed_member_gone (k : Bytes) (kvs : List (Bytes × Val)) (h : WFKvs kvs = true) :
    lookup k (eraseKey k kvs) = none := by
  induction kvs with
  | nil => simp [eraseKey, lookup]
  | cons kv r ih =>
    obtain ⟨k0, v0⟩ := kv
    simp only [WFKvs, Bool.and_eq_true, Option.isNone_iff_eq_none] at h
    obtain ⟨⟨h1, _⟩, h3⟩ := h
    simp only [eraseKey]
    split
    · rename_i hk
      subst hk
      exact h1
    · rename_i hk
      simp only [lookup, hk, if_false]
      exact ih h3

/-- everything outside the parent is unchanged -/
theorem removeAt_frame (D : Val) (l m : Loc) (s : Step) (n w : Val) (hl : D.at (l ++ [s]) = some n)
    (hm : D.at m = some w) (h1 : ¬ l <+: m) (h2 : ¬ m <+: l) :
    (removeAt D (l ++ [s])).at m = some w := by
  rw [at_append] at hl
  cases hp : D.at l with
  | none => simp [hp] at hl
  | some parent =>
    rw [removeAt_snoc D l s parent hp, setAt_frame D l m _ h1 h2, hm]

example : delete .json (.arr []) [47, 48] = (.arr [], .ok none) := by
  simp [delete, splitBack, rsplitOnce, resolveMut, resolveMutLoop, splitFront, Token.toIndex,
    Index.fromStr, position, isDigit, parseUsize, parseNat, Index.forLen, usizeMax]

end Jp.C08
