import Jp.Lemmas.Bridge
import Jp.Lemmas.Toml
import Jp.Lemmas.C09Helpers
/-
  C09 — JSON and TOML backends, and resolve vs resolve_mut, behave identically.
  The model is parametric in the backend (it only selects what deleting the root leaves behind), so
  backend independence is true of the model by construction; that the two separately written Rust
  copies both follow this one model is what the correspondence run (all six walks on the same lines)
  checks. What is proved here: `resolve_mut` (written with the shared `parse_index` helper in the json
  copy) reaches the same node as `resolve`, and writing through it is a `setAt` at that node.
  The toml copies are also modelled separately (`Jp.Model.Toml`, mirroring `mod toml` of resolve.rs,
  assign.rs, delete.rs); the `toml_*_eq` theorems at the end prove them equal to the json copies for
  every input, so "JSON = TOML" is a theorem about two written-out models, not a by-construction fact.
-/
namespace Jp.C09
open Jp Jp.Spec

/-- locations that are neither at/below `l` nor above it -/
def Unrelated (l m : Loc) : Prop := ¬ l <+: m ∧ ¬ m <+: l

-- OBLIGATIONS
-- resolveMut_eq_resolve write_then_read write_frame write_err_unchanged delete_backend_independent
-- ops_backend_independent ancestors_keep_shape
-- toml_resolve_eq toml_resolveMut_eq toml_assign_eq toml_delete_eq toml_write_eq

/-- same success, same node, same error with the same kind, position, offset and payload -/
theorem resolveMut_eq_resolve (D : Val) (p : Bytes) : resolveMut D p = resolve D p := by
  exact resolveMutLoop_eq_resolveLoop p D 0 0 []

/-- a value written through the returned mutable reference is what `resolve` then reads -/
theorem write_then_read (D x : Val) (p : Bytes) (l : Loc) (n : Val) (hp : validPtr p = true)
    (h : resolveMut D p = .ok (l, n)) :
    writeThrough D p x = (D.setAt l x, .ok ()) ∧ resolve (D.setAt l x) p = .ok (l, x) := by
  obtain ⟨ts, rfl, _, hns, _⟩ := valid_decomp hp
  have hT : resolveT ts D 0 0 [] = .ok (l, n) := by
    rw [← resolveMutLoop_ofToks ts hns]; exact h
  obtain ⟨l', rfl, _, hset⟩ := resolveT_inv ts D 0 0 [] _ n hT
  refine ⟨by simp only [writeThrough, h], ?_⟩
  simp only [resolve, resolveLoop_ofToks ts hns]
  simpa using hset x

/-- … and no other location changes -/
theorem write_frame (D x : Val) (l m : Loc) (n w : Val) (hl : D.at l = some n) (hm : D.at m = some w)
    (hu : Unrelated l m) : (D.setAt l x).at m = some w := by
  induction l generalizing D m with
  | nil => exact absurd (List.nil_prefix) hu.1
  | cons s l' ih =>
    cases m with
    | nil => exact absurd (List.nil_prefix) hu.2
    | cons s2 m' =>
      have hu' : s = s2 → Unrelated l' m' := by
        rintro rfl
        exact ⟨fun hp => hu.1 (by simpa using hp), fun hp => hu.2 (by simpa using hp)⟩
      cases D with
      | scalar a => simp [Val.at] at hl
      | arr xs =>
        cases s with
        | key k => simp [Val.at] at hl
        | idx i =>
          cases s2 with
          | key k2 => simp [Val.at] at hm
          | idx j =>
            simp only [Val.at] at hl hm
            cases hx : xs[i]? with
            | none => simp [hx] at hl
            | some c =>
              simp only [hx] at hl
              have hlt : i < xs.length := by
                have := List.getElem?_eq_some_iff.mp hx; exact this.1
              by_cases hij : i = j
              · subst hij
                simp only [hx] at hm
                simp only [Val.setAt, hx, Val.at, List.getElem?_set_self hlt]
                exact ih c m' hl hm (hu' rfl)
              · simp only [Val.setAt, hx, Val.at, List.getElem?_set_ne hij]
                exact hm
      | obj kvs =>
        cases s with
        | idx i => simp [Val.at] at hl
        | key k =>
          cases s2 with
          | idx j => simp [Val.at] at hm
          | key k2 =>
            simp only [Val.at] at hl hm
            cases hx : lookup k kvs with
            | none => simp [hx] at hl
            | some c =>
              simp only [hx] at hl
              by_cases hij : k = k2
              · subst hij
                simp only [hx] at hm
                simp only [Val.setAt, hx, Val.at, lookup_replaceKey_self hx]
                exact ih c m' hl hm (hu' rfl)
              · simp only [Val.setAt, hx, Val.at, lookup_replaceKey_ne _ _ (Ne.symm hij)]
                exact hm

/-- ancestors of the written node keep their kind (and arrays their length, objects their keys) -/
theorem ancestors_keep_shape (D x : Val) (l m : Loc) (n w : Val) (hl : D.at l = some n)
    (hm : D.at m = some w) (hpre : m <+: l) (hne : m ≠ l) :
    ∃ w', (D.setAt l x).at m = some w' ∧
      (match w, w' with
       | .arr xs, .arr ys => xs.length = ys.length
       | .obj kvs, .obj kvs' => kvs.map (·.1) = kvs'.map (·.1)
       | _, _ => False) := by
  obtain ⟨w', h1, h2⟩ := ancestors_keep_shape_aux D x l m n w hl hm hpre hne
  refine ⟨w', h1, ?_⟩
  cases w <;> cases w' <;> simp only [SameShape] at h2 <;> exact h2

theorem write_err_unchanged (D x : Val) (p : Bytes) (e : ResolveErr) (h : resolveMut D p = .err e) :
    writeThrough D p x = (D, .err e) := by
  simp only [writeThrough, h]

/-- the single documented difference: what deleting the root leaves behind -/
theorem delete_backend_independent (D : Val) (p : Bytes) (hp : validPtr p = true) (hne : p ≠ []) :
    delete .json D p = delete .toml D p := by
  have hs : splitBack p ≠ none := by
    rcases validPtr_shape hp with rfl | hh
    · exact absurd rfl hne
    · cases p with
      | nil => exact absurd rfl hne
      | cons b r =>
        simp only [List.head?_cons, Option.some.injEq] at hh
        subst hh
        exact rsplitOnce_slash_cons r
  unfold delete
  cases hsb : splitBack p with
  | none => exact absurd hsb hs
  | some pl => rfl

/-- `resolve`, `resolve_mut`, `assign` take no backend argument in the model at all; `delete` at the
    root returns the document in both and leaves `rootRepl` -/
theorem ops_backend_independent (D : Val) (b : Backend) :
    delete b D [] = (rootRepl b, .ok (some D)) := by
  simp [delete, splitBack, rsplitOnce]

/-! ### the separately written toml copies (`Jp.Model.Toml`) against the json copies -/

/-- the separately written toml copy of `Resolve::resolve` gives the same outcome as the json copy:
    same success with the same node, same error with the same kind, position, offset and payload -/
theorem toml_resolve_eq (D : Val) (p : Bytes) : Toml.resolve D p = resolve D p :=
  toml_resolveLoop_eq p D 0 0 []

/-- the separately written toml copy of `ResolveMut::resolve_mut` (inline `to_index` / `for_len`
    chain) gives the same outcome as the json copy (through `parse_index`): same success with the same
    node, same error with the same kind, position, offset and payload -/
theorem toml_resolveMut_eq (D : Val) (p : Bytes) : Toml.resolveMut D p = resolveMut D p :=
  toml_resolveMutLoop_eq p D 0 0 []

/-- the separately written toml copy of `Assign::assign` (with its own `expand`, `assign_array`,
    `assign_object`, `assign_scalar`) gives the same outcome as the json copy: same success with the
    same replaced value, same error with the same kind, position, offset and payload, and the same
    resulting document on every path -/
theorem toml_assign_eq (D v : Val) (p : Bytes) : Toml.assign D p v = assign D p v :=
  toml_assignValue_eq p D v 0 0

/-- the separately written toml copy of `Delete::delete` gives the same outcome as the json copy
    (same returned value, same resulting document); the one difference is what deleting the root
    leaves behind, `Table::default().into()` = `rootRepl .toml` -/
theorem toml_delete_eq (D : Val) (p : Bytes) : Toml.delete D p = delete .toml D p :=
  toml_delete_eq_aux D p

/-- writing through the toml copy of `resolve_mut` gives the same outcome as through the json copy:
    same success, same error with the same kind, position, offset and payload, same resulting
    document -/
theorem toml_write_eq (D x : Val) (p : Bytes) : Toml.writeThrough D p x = writeThrough D p x := by
  simp only [Toml.writeThrough, writeThrough, toml_resolveMut_eq]
  rfl

example : Unrelated [.key [97]] [.key [98], .idx 0] := by
  constructor <;> simp

end Jp.C09
