import Jp.Lemmas.Bridge
import Jp.Lemmas.Toml
/-
  C09 — JSON and TOML backends, and resolve vs resolve_mut, behave identically.
  The model is parametric in the backend (it only selects what deleting the root leaves behind), so
  backend independence is true of the model by construction; that the two separately written Rust
  copies both follow this one model is what the correspondence run (all six walks on the same lines)
  checks. What is proved here: `resolve_mut` (written with the shared `parse_index` helper in the json
  copy) reaches the same node as `resolve`, and writing through it is a `setAt` at that node.
  The toml copies are also modelled separately (`Jp.Model.Toml`, mirroring `mod toml` of resolve.rs,
  assign.rs, delete.rs); the `toml_*_eq` theorems at the end prove them equal to the json copies for
  every input, so "JSON = TOML" is a theorem about two written-out models, not a by-construction fact.
-/
namespace Jp.C09
open Jp Jp.Spec

/-- locations that are neither at/below `l` nor above it -/
def Unrelated (l m : Loc) : Prop := ¬ l <+: m ∧ ¬ m <+: l


/-! ### helper lemmas -/

theorem lookup_replaceKey_self {k : Bytes} {y c : Val} {kvs : List (Bytes × Val)}
    (h : lookup k kvs = some c) : lookup k (replaceKey k y kvs) = some y := by
  induction kvs with
  | nil => simp [lookup] at h
  | cons kv r ih =>
    obtain ⟨k', v⟩ := kv
    by_cases hk : k = k' <;> simp_all [replaceKey, lookup]

theorem lookup_replaceKey_ne {k k2 : Bytes} (y : Val) (kvs : List (Bytes × Val)) (hne : k2 ≠ k) :
    lookup k2 (replaceKey k y kvs) = lookup k2 kvs := by
  induction kvs with
  | nil => simp [replaceKey]
  | cons kv r ih =>
    obtain ⟨k', v⟩ := kv
    by_cases hk : k = k'
    · subst hk; simp [replaceKey, lookup, hne]
    · simp [replaceKey, lookup, hk, ih]

theorem replaceKey_keys (k : Bytes) (y : Val) (kvs : List (Bytes × Val)) :
    (replaceKey k y kvs).map (·.1) = kvs.map (·.1) := by
  induction kvs with
  | nil => simp [replaceKey]
  | cons kv r ih =>
    obtain ⟨k', v⟩ := kv
    by_cases hk : k = k' <;> simp [replaceKey, hk, ih]

theorem forLen_ok_lt {i : Index} {len idx : Nat} (h : i.forLen len = .ok idx) : idx < len := by
  cases i with
  | next => simp [Index.forLen] at h
  | num k =>
    simp only [Index.forLen] at h
    split at h
    · cases h; assumption
    · cases h

/-- the walk invariant: the returned location extends the accumulator by a path `l'` that `Val.at`
    follows to the returned node, and the walk over the document written at `l'` ends at the same
    location on the written value -/
theorem resolveT_inv (ts : List Bytes) (v : Val) (o pos : Nat) (loc l : Loc) (n : Val)
    (h : resolveT ts v o pos loc = .ok (l, n)) :
    ∃ l', l = loc ++ l' ∧ v.at l' = some n ∧
      ∀ x, resolveT ts (v.setAt l' x) o pos loc = .ok (loc ++ l', x) := by
  induction ts generalizing v o pos loc with
  | nil =>
    simp only [resolveT, Res.ok.injEq, Prod.mk.injEq] at h
    obtain ⟨rfl, rfl⟩ := h
    exact ⟨[], by simp, by simp [Val.at], fun x => by simp [Val.setAt, resolveT]⟩
  | cons t ts ih =>
    cases v with
    | scalar s => simp [resolveT] at h
    | obj kvs =>
      simp only [resolveT] at h
      cases hk : lookup (Token.decoded t).bytes kvs with
      | none => simp [hk] at h
      | some c =>
        simp only [hk] at h
        obtain ⟨l', rfl, hat, hset⟩ := ih _ _ _ _ h
        refine ⟨.key (Token.decoded t).bytes :: l', by simp, by simp [Val.at, hk, hat], fun x => ?_⟩
        simp only [Val.setAt, hk, resolveT, lookup_replaceKey_self hk]
        rw [hset x]; simp
    | arr xs =>
      simp only [resolveT] at h
      cases hti : Token.toIndex t with
      | err e => simp [hti] at h
      | panic m => simp [hti] at h
      | ok i =>
        simp only [hti] at h
        cases hf : i.forLen xs.length with
        | err e => simp [hf] at h
        | panic m => simp [hf] at h
        | ok idx =>
          simp only [hf] at h
          have hlt := forLen_ok_lt hf
          cases hx : xs[idx]? with
          | none => simp [hx] at h
          | some c =>
            simp only [hx] at h
            obtain ⟨l', rfl, hat, hset⟩ := ih _ _ _ _ h
            refine ⟨.idx idx :: l', by simp, by simp [Val.at, hx, hat], fun x => ?_⟩
            simp only [Val.setAt, hx, resolveT, hti, List.length_set, hf]
            rw [List.getElem?_set_self hlt]
            simp only []
            rw [hset x]; simp

theorem rsplitOnce_slash_cons (r : Bytes) : rsplitOnce 47 (47 :: r) ≠ none := by
  simp only [rsplitOnce]
  cases rsplitOnce 47 r with
  | none => simp
  | some fk => simp

-- OBLIGATIONS
-- resolveMut_eq_resolve write_then_read write_frame write_err_unchanged delete_backend_independent
-- ops_backend_independent ancestors_keep_shape
-- toml_resolve_eq toml_resolveMut_eq toml_assign_eq toml_delete_eq toml_write_eq

/-- same success, same node, same error with the same kind, position, offset and payload -/
theorem resolveMut_eq_resolve (D : Val) (p : Bytes) : resolveMut D p = resolve D p := by
  exact resolveMutLoop_eq_resolveLoop p D 0 0 []

/-- a value written through the returned mutable reference is what `resolve` then reads -/
theorem write_then_read (D x : Val) (p : Bytes) (l : Loc) (n : Val) (hp : validPtr p = true)
    (h : resolveMut D p = .ok (l, n)) :
    writeThrough D p x = (D.setAt l x, .ok ()) ∧ resolve (D.setAt l x) p = .ok (l, x) := by
  obtain ⟨ts, rfl, _, hns, _⟩ := valid_decomp hp
  have hT : resolveT ts D 0 0 [] = .ok (l, n) := by
    rw [← resolveMutLoop_ofToks ts hns]; exact h
  obtain ⟨l', rfl, _, hset⟩ := resolveT_inv ts D 0 0 [] _ n hT
  refine ⟨by simp only [writeThrough, h], ?_⟩
  simp only [resolve, resolveLoop_ofToks ts hns]
  simpa using hset x

/-- … and no other location changes -/
theorem write_frame (D x : Val) (l m : Loc) (n w : Val) (hl : D.at l = some n) (hm : D.at m = some w)
    (hu : Unrelated l m) : (D.setAt l x).at m = some w := by
  induction l generalizing D m with
  | nil => exact absurd (List.nil_prefix) hu.1
  | cons s l' ih =>
    cases m with
    | nil => exact absurd (List.nil_prefix) hu.2
    | cons s2 m' =>
      have hu' : s = s2 → Unrelated l' m' := by
        rintro rfl
        exact ⟨fun hp => hu.1 (by simpa using hp), fun hp => hu.2 (by simpa using hp)⟩
      cases D with
      | scalar a => simp [Val.at] at hl
      | arr xs =>
        cases s with
        | key k => simp [Val.at] at hl
        | idx i =>
          cases s2 with
          | key k2 => simp [Val.at] at hm
          | idx j =>
            simp only [Val.at] at hl hm
            cases hx : xs[i]? with
            | none => simp [hx] at hl
            | some c =>
              simp only [hx] at hl
              have hlt : i < xs.length := by
                have := List.getElem?_eq_some_iff.mp hx; exact this.1
              by_cases hij : i = j
              · subst hij
                simp only [hx] at hm
                simp only [Val.setAt, hx, Val.at, List.getElem?_set_self hlt]
                exact ih c m' hl hm (hu' rfl)
              · simp only [Val.setAt, hx, Val.at, List.getElem?_set_ne hij]
                exact hm
      | obj kvs =>
        cases s with
        | idx i => simp [Val.at] at hl
        | key k =>
          cases s2 with
          | idx j => simp [Val.at] at hm
          | key k2 =>
            simp only [Val.at] at hl hm
            cases hx : lookup k kvs with
            | none => simp [hx] at hl
            | some c =>
              simp only [hx] at hl
              by_cases hij : k = k2
              · subst hij
                simp only [hx] at hm
                simp only [Val.setAt, hx, Val.at, lookup_replaceKey_self hx]
                exact ih c m' hl hm (hu' rfl)
              · simp only [Val.setAt, hx, Val.at, lookup_replaceKey_ne _ _ (Ne.symm hij)]
                exact hm

def SameShape : Val → Val → Prop
  | .arr xs, .arr ys => xs.length = ys.length
  | .obj kvs, .obj kvs' => kvs.map (·.1) = kvs'.map (·.1)
  | _, _ => False

theorem ancestors_keep_shape_aux (D x : Val) (l m : Loc) (n w : Val) (hl : D.at l = some n)
    (hm : D.at m = some w) (hpre : m <+: l) (hne : m ≠ l) :
    ∃ w', (D.setAt l x).at m = some w' ∧ SameShape w w' := by
  induction m generalizing D l with
  | nil =>
    cases l with
    | nil => exact absurd rfl hne
    | cons s l' =>
      simp only [Val.at, Option.some.injEq] at hm
      subst hm
      cases D with
      | scalar a => simp [Val.at] at hl
      | arr xs =>
        cases s with
        | key k => simp [Val.at] at hl
        | idx i =>
          simp only [Val.at] at hl
          cases hx : xs[i]? with
          | none => simp [hx] at hl
          | some c => exact ⟨.arr (xs.set i (c.setAt l' x)), by simp [Val.at, Val.setAt, hx], by simp [SameShape]⟩
      | obj kvs =>
        cases s with
        | idx i => simp [Val.at] at hl
        | key k =>
          simp only [Val.at] at hl
          cases hx : lookup k kvs with
          | none => simp [hx] at hl
          | some c => exact ⟨.obj (replaceKey k (c.setAt l' x) kvs), by simp [Val.at, Val.setAt, hx],
            by simp [SameShape, replaceKey_keys]⟩
  | cons s m' ih =>
    cases l with
    | nil => simp at hpre
    | cons s2 l' =>
      have hss : s = s2 ∧ m' <+: l' := by simpa using hpre
      obtain ⟨rfl, hpre'⟩ := hss
      have hne' : m' ≠ l' := fun e => hne (by rw [e])
      cases D with
      | scalar a => simp [Val.at] at hl
      | arr xs =>
        cases s with
        | key k => simp [Val.at] at hl
        | idx i =>
          simp only [Val.at] at hl hm
          cases hx : xs[i]? with
          | none => simp [hx] at hl
          | some c =>
            simp only [hx] at hl hm
            have hlt : i < xs.length := (List.getElem?_eq_some_iff.mp hx).1
            simp only [Val.setAt, hx, Val.at, List.getElem?_set_self hlt]
            exact ih c l' hl hm hpre' hne'
      | obj kvs =>
        cases s with
        | idx i => simp [Val.at] at hl
        | key k =>
          simp only [Val.at] at hl hm
          cases hx : lookup k kvs with
          | none => simp [hx] at hl
          | some c =>
            simp only [hx] at hl hm
            simp only [Val.setAt, hx, Val.at, lookup_replaceKey_self hx]
            exact ih c l' hl hm hpre' hne'

/-- ancestors of the written node keep their kind (and arrays their length, objects their keys) -/
theorem ancestors_keep_shape (D x : Val) (l m : Loc) (n w : Val) (hl : D.at l = some n)
    (hm : D.at m = some w) (hpre : m <+: l) (hne : m ≠ l) :
    ∃ w', (D.setAt l x).at m = some w' ∧
      (match w, w' with
       | .arr xs, .arr ys => xs.length = ys.length
       | .obj kvs, .obj kvs' => kvs.map (·.1) = kvs'.map (·.1)
       | _, _ => False) := by
  obtain ⟨w', h1, h2⟩ := ancestors_keep_shape_aux D x l m n w hl hm hpre hne
  refine ⟨w', h1, ?_⟩
  cases w <;> cases w' <;> simp only [SameShape] at h2 <;> exact h2

theorem write_err_unchanged (D x : Val) (p : Bytes) (e : ResolveErr) (h : resolveMut D p = .err e) :
    writeThrough D p x = (D, .err e) := by
  simp only [writeThrough, h]

/-- the single documented difference: what deleting the root leaves behind -/
theorem delete_backend_independent (D : Val) (p : Bytes) (hp : validPtr p = true) (hne : p ≠ []) :
    delete .json D p = delete .toml D p := by
  have hs : splitBack p ≠ none := by
    rcases validPtr_shape hp with rfl | hh
    · exact absurd rfl hne
    · cases p with
      | nil => exact absurd rfl hne
      | cons b r =>
        simp only [List.head?_cons, Option.some.injEq] at hh
        subst hh
        exact rsplitOnce_slash_cons r
  unfold delete
  cases hsb : splitBack p with
  | none => exact absurd hsb hs
  | some pl => rfl

/-- `resolve`, `resolve_mut`, `assign` take no backend argument in the model at all; `delete` at the
    root returns the document in both and leaves `rootRepl` -/
theorem ops_backend_independent (D : Val) (b : Backend) :
    delete b D [] = (rootRepl b, .ok (some D)) := by
  simp [delete, splitBack, rsplitOnce]

/-! ### the separately written toml copies (`Jp.Model.Toml`) against the json copies -/

/-- the separately written toml copy of `Resolve::resolve` gives the same outcome as the json copy:
    same success with the same node, same error with the same kind, position, offset and payload -/
theorem toml_resolve_eq (D : Val) (p : Bytes) : Toml.resolve D p = resolve D p :=
  toml_resolveLoop_eq p D 0 0 []

/-- the separately written toml copy of `ResolveMut::resolve_mut` (inline `to_index` / `for_len`
    chain) gives the same outcome as the json copy (through `parse_index`): same success with the same
    node, same error with the same kind, position, offset and payload -/
theorem toml_resolveMut_eq (D : Val) (p : Bytes) : Toml.resolveMut D p = resolveMut D p :=
  toml_resolveMutLoop_eq p D 0 0 []

/-- the separately written toml copy of `Assign::assign` (with its own `expand`, `assign_array`,
    `assign_object`, `assign_scalar`) gives the same outcome as the json copy: same success with the
    same replaced value, same error with the same kind, position, offset and payload, and the same
    resulting document on every path -/
theorem toml_assign_eq (D v : Val) (p : Bytes) : Toml.assign D p v = assign D p v :=
  toml_assignValue_eq p D v 0 0

/-- the separately written toml copy of `Delete::delete` gives the same outcome as the json copy
    (same returned value, same resulting document); the one difference is what deleting the root
    leaves behind, `Table::default().into()` = `rootRepl .toml` -/
theorem toml_delete_eq (D : Val) (p : Bytes) : Toml.delete D p = delete .toml D p :=
  toml_delete_eq_aux D p

/-- writing through the toml copy of `resolve_mut` gives the same outcome as through the json copy:
    same success, same error with the same kind, position, offset and payload, same resulting
    document -/
theorem toml_write_eq (D x : Val) (p : Bytes) : Toml.writeThrough D p x = writeThrough D p x := by
  simp only [Toml.writeThrough, writeThrough, toml_resolveMut_eq]
  rfl

example : Unrelated [.key [97]] [.key [98], .idx 0] := by
  constructor <;> simp

end Jp.C09
