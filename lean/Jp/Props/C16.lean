import Jp.Lemmas.Text
import Jp.Lemmas.Utf8
import Jp.Lemmas.C16Helpers
/-
  C16 — Array-index tokens follow the RFC 6901 grammar and bound checks are exact.
  Model: `Index.fromStr` (order of tests of `src/index.rs`), `forLen*`, `display`, `invalidCharAt`.
-/
namespace Jp.C16
open Jp Jp.Spec

-- OBLIGATIONS
-- fromStr_eq_spec fromStr_ok_iff fromStr_no_panic display_fromStr fromStr_display parseNat_decimal
-- leading_zeros_truthful invalid_character_truthful invalid_integer_truthful
-- forLen_exact forLenIncl_exact forLenUnchecked_exact toIndex_eq isNext_iff char_index_is_byte_index
-- fromStr_err_admitted admits_unique_without_leading_zero admits_with_leading_zero

/-! ### obligations -/

theorem fromStr_eq_spec (s : Bytes) : Index.fromStr s = indexSpec s := by
  unfold Index.fromStr indexSpec parseUsize
  simp only [head_len]
  cases position (fun b => !isDigit b) s with
  | some o => rfl
  | none =>
    by_cases h1 : s = [45]
    · simp [h1]
    · by_cases h2 : s.length > 1 ∧ s.head? = some 48
      · simp [h1, h2]
      · by_cases h3 : s = []
        · simp [h3]
        · by_cases h4 : parseNat s > usizeMax
          · simp [h1, h2, h3, h4]
          · simp [h1, h2, h3, h4]

/-- parses exactly when `-`, `0`, or non-empty ASCII digits without leading zero that fit in usize -/
theorem fromStr_ok_iff (s : Bytes) : (∃ i, Index.fromStr s = .ok i) ↔ validIndexStr s = true := by
  rw [fromStr_eq_spec]
  constructor
  · rintro ⟨i, hi⟩
    cases i with
    | next => simp [validIndexStr, spec_ok_next s hi]
    | num n =>
      obtain ⟨hne, hd, hz, hm, _⟩ := spec_ok_num s n hi
      rcases hz with rfl | hz
      · decide
      · simp [validIndexStr, validNum, hne, hz, hm]
        right; right; exact hd
  · intro h
    simp only [validIndexStr, validNum, Bool.or_eq_true, beq_iff_eq, Bool.and_eq_true,
      Bool.not_eq_true', List.all_eq_true, bne_iff_ne, decide_eq_true_eq] at h
    rcases h with rfl | rfl | ⟨⟨⟨hne, hd⟩, hz⟩, hm⟩
    · exact ⟨.next, by decide⟩
    · exact ⟨.num 0, by decide⟩
    · have hne' : s ≠ [] := by simpa using hne
      exact ⟨_, spec_of_valid s hne' hd (Or.inr hz) hm⟩

theorem fromStr_no_panic (s : Bytes) (m : String) : Index.fromStr s ≠ .panic m := by
  rw [fromStr_eq_spec]
  unfold indexSpec
  split
  · simp
  · split
    · simp
    · split
      · simp
      · split
        · simp
        · split <;> simp

theorem parseNat_decimal (n : Nat) : parseNat (decimal n) = n := by
  induction n using Nat.strongRecOn with
  | ind n ih =>
    rw [decimal]
    split
    · simp [parseNat]
    · rw [parseNat_snoc, ih (n / 10) (by omega)]; omega

/-- Display of the parsed index gives the string back -/
theorem display_fromStr (s : Bytes) (i : Index) (h : Index.fromStr s = .ok i) : i.display = s := by
  rw [fromStr_eq_spec] at h
  cases i with
  | next => simp [Index.display, spec_ok_next s h]
  | num n =>
    obtain ⟨hne, hd, hz, hm, rfl⟩ := spec_ok_num s n h
    simp only [Index.display]
    rcases hz with rfl | hz
    · simp [parseNat, decimal_zero]
    · exact decimal_parseNat s hne hd hz

/-- every index that fits in usize is the parse of its Display -/
theorem fromStr_display (i : Index) (h : ∀ n, i = .num n → n ≤ usizeMax) :
    Index.fromStr i.display = .ok i := by
  rw [fromStr_eq_spec]
  cases i with
  | next => decide
  | num n =>
    simp only [Index.display]
    have hz : decimal n = [48] ∨ (decimal n).head? ≠ some 48 := by
      rcases Nat.eq_zero_or_pos n with rfl | hn
      · exact Or.inl decimal_zero
      · exact Or.inr (decimal_head n hn)
    have := spec_of_valid (decimal n) (decimal_ne_nil n) (decimal_all_digit n) hz
      (by rw [parseNat_decimal]; exact h n rfl)
    rw [parseNat_decimal] at this
    exact this

/-- leading-zeros only for a multi-character string starting with `0` -/
theorem leading_zeros_truthful (s : Bytes) (h : Index.fromStr s = .err .leadingZeros) :
    1 < s.length ∧ s.head? = some 48 := by
  rw [fromStr_eq_spec] at h
  unfold indexSpec at h
  split at h
  · simp at h
  · split at h
    · rename_i h2; exact ⟨h2.1, h2.2⟩
    · split at h
      · simp at h
      · split at h
        · simp at h
        · split at h <;> simp at h

/-- invalid-character: the offset is the first non-digit, everything before is an ASCII digit (so
    the char index equals the byte index), the source is the input, and `char()` does not panic -/
theorem invalid_character_truthful (s src : Bytes) (o : Nat)
    (h : Index.fromStr s = .err (.invalidCharacter src o)) :
    src = s ∧ (∃ b, s[o]? = some b ∧ isDigit b = false) ∧ (∀ j, j < o → ∃ b, s[j]? = some b ∧ isDigit b = true) ∧
    (∃ b, invalidCharAt src o = .ok b) := by
  rw [fromStr_eq_spec] at h
  unfold indexSpec at h
  split at h
  · simp at h
  · split at h
    · simp at h
    · split at h
      · rename_i o' hp
        simp at h
        obtain ⟨rfl, rfl⟩ := h
        obtain ⟨⟨b, hb, hpb⟩, h2⟩ := position_some _ _ _ hp
        refine ⟨rfl, ⟨b, hb, by simpa using hpb⟩, ?_, ⟨b, by simp [invalidCharAt, hb]⟩⟩
        intro j hj
        obtain ⟨c, hc, hpc⟩ := h2 j hj
        exact ⟨c, hc, by simpa using hpc⟩
      · split at h
        · simp at h
        · split at h <;> simp at h

/-- the offset Rust reports is a *char* index (`s.chars().position(..)`), the model's a *byte* index:
    on any well-formed UTF-8 input they coincide, and `source.chars().nth(offset)` exists (the
    `.expect` in `InvalidCharacterError::char()` cannot panic) and is not an ASCII digit -/
theorem char_index_is_byte_index (s src : Bytes) (o : Nat) (cs : List Bytes)
    (hutf : Jp.Spec.Utf8.chars s = some cs)
    (h : Index.fromStr s = .err (.invalidCharacter src o)) :
    Jp.Spec.Utf8.charPosition (fun c => !Jp.Spec.Utf8.isAsciiDigitChar c) cs = some o ∧
    ∃ c, cs[o]? = some c ∧ Jp.Spec.Utf8.isAsciiDigitChar c = false := by
  have hp : position (fun b => !isDigit b) s = some o := by
    unfold Index.fromStr at h
    split at h
    · simp at h
    · split at h
      · simp at h
      · split at h
        · rename_i o' hp
          simp at h
          rw [hp, h.2]
        · split at h
          · simp at h
          · rename_i e he
            simp at h
            subst h
            unfold parseUsize at he
            split at he
            · simp at he
            · split at he <;> simp at he
          · simp at h
  refine ⟨by rw [Jp.Spec.Utf8.charPosition_eq_bytePosition s cs hutf, hp], ?_⟩
  obtain ⟨c, hc1, hc2, _⟩ := Jp.Spec.Utf8.nth_char_exists s cs o hutf hp
  exact ⟨c, hc1, hc2⟩

/-- invalid-integer only for empty or overflowing digit strings -/
theorem invalid_integer_truthful (s : Bytes) :
    (Index.fromStr s = .err .invalidIntegerEmpty → s = []) ∧
    (Index.fromStr s = .err .invalidIntegerOverflow →
      s ≠ [] ∧ s.all isDigit = true ∧ usizeMax < parseNat s) := by
  rw [fromStr_eq_spec]
  unfold indexSpec
  split
  · simp
  · split
    · simp
    · split
      · simp
      · rename_i hp
        split
        · rename_i h3; simp [h3]
        · rename_i h3
          split
          · rename_i h4
            refine ⟨by simp, fun _ => ⟨h3, ?_, h4⟩⟩
            rw [List.all_eq_true]; exact all_digit_of_position s hp
          · simp

theorem forLen_exact (i : Index) (n : Nat) :
    i.forLen n = match i with
      | .num k => if k < n then .ok k else .err ⟨n, k⟩
      | .next => .err ⟨n, n⟩ := by
  cases i <;> rfl

theorem forLenIncl_exact (i : Index) (n : Nat) :
    i.forLenIncl n = match i with
      | .num k => if k ≤ n then .ok k else .err ⟨n, k⟩
      | .next => .ok n := by
  cases i <;> rfl

theorem forLenUnchecked_exact (i : Index) (n : Nat) :
    i.forLenUnchecked n = match i with | .num k => k | .next => n := by
  cases i <;> rfl

theorem toIndex_eq (t : Bytes) : Token.toIndex t = Index.fromStr t := rfl

theorem isNext_iff (t : Bytes) : Token.isNext t = true ↔ t = [45] := by
  constructor
  · intro h
    unfold Token.isNext at h
    split at h
    · rename_i h1
      rw [toIndex_eq, fromStr_eq_spec] at h1
      exact spec_ok_next t h1
    · simp at h
  · rintro rfl; decide

/-! ### the statement as a relation

C16 does not say *which* reason is given when several are truthful (`"0x"`: leading zeros, or an invalid character
at 1; `"0999…9"` beyond `usize::MAX`: leading zeros, or overflow). `Admits s e` is the statement's own relation;
the code-mirroring model picks one admissible reason (`fromStr_err_admitted`), a string that is not a
multi-character string starting with `0` admits exactly one (`admits_unique_without_leading_zero`), and with a
leading zero the further admissible reasons are exactly invalid-character / overflow
(`admits_with_leading_zero`). The correspondence check compares the crate's reason with the model's only up to
this relation (tools/proptable.py `_index_reasons`), and checks membership on the crate's side (`law_truth`). -/

/-- the rejection reasons C16's statement admits for `s` -/
def Admits (s : Bytes) : ParseIndexError → Prop
  | .leadingZeros => 1 < s.length ∧ s.head? = some 48
  | .invalidCharacter src o => src = s ∧ position (fun b => !isDigit b) s = some o
  | .invalidIntegerEmpty => s = []
  | .invalidIntegerOverflow => s ≠ [] ∧ (∀ b ∈ s, isDigit b = true) ∧ usizeMax < parseNat s

/-- whatever reason the model gives is admitted by the statement -/
theorem fromStr_err_admitted (s : Bytes) (e : ParseIndexError) (h : Index.fromStr s = .err e) : Admits s e := by
  rw [fromStr_eq_spec] at h
  unfold indexSpec at h
  split at h
  · simp at h
  · split at h
    · rename_i h2; simp at h; subst h; exact ⟨h2.1, h2.2⟩
    · split at h
      · rename_i o hp; simp at h; subst h; exact ⟨rfl, hp⟩
      · rename_i hp
        split at h
        · rename_i h3; simp at h; subst h; exact h3
        · rename_i h3
          split at h
          · rename_i h4; simp at h; subst h
            exact ⟨h3, all_digit_of_position s hp, h4⟩
          · simp at h

/-- without a leading zero (in a multi-character string) the admitted reason is unique: the comparison with the
    model is exact there -/
theorem admits_unique_without_leading_zero (s : Bytes) (e e' : ParseIndexError)
    (hz : ¬ (1 < s.length ∧ s.head? = some 48)) (h : Admits s e) (h' : Admits s e') : e = e' := by
  have ic_vs_digits : ∀ o, position (fun b => !isDigit b) s = some o → (∀ b ∈ s, isDigit b = true) → False := by
    intro o h1 h2; rw [position_of_all_digit s h2] at h1; simp at h1
  have ic_vs_empty : ∀ o, position (fun b => !isDigit b) s = some o → s = [] → False := by
    intro o h1 h2; subst h2; simp [position] at h1
  cases e with
  | leadingZeros => exact absurd h hz
  | invalidCharacter src o =>
    obtain ⟨hs, h1⟩ := h
    cases e' with
    | leadingZeros => exact absurd h' hz
    | invalidCharacter src' o' =>
      obtain ⟨hs', h2⟩ := h'
      rw [h1] at h2; simp at h2; subst h2; subst hs; subst hs'; rfl
    | invalidIntegerEmpty => exact (ic_vs_empty o h1 h').elim
    | invalidIntegerOverflow => exact (ic_vs_digits o h1 h'.2.1).elim
  | invalidIntegerEmpty =>
    cases e' with
    | leadingZeros => exact absurd h' hz
    | invalidCharacter src' o' => exact (ic_vs_empty o' h'.2 h).elim
    | invalidIntegerEmpty => rfl
    | invalidIntegerOverflow => exact absurd h h'.1
  | invalidIntegerOverflow =>
    cases e' with
    | leadingZeros => exact absurd h' hz
    | invalidCharacter src' o' => exact (ic_vs_digits o' h'.2 h.2.1).elim
    | invalidIntegerEmpty => exact absurd h' h.1
    | invalidIntegerOverflow => rfl

/-- with a leading zero, any other admitted reason is an invalid character or an overflow — never `empty` -/
theorem admits_with_leading_zero (s : Bytes) (e : ParseIndexError)
    (hz : 1 < s.length ∧ s.head? = some 48) (h : Admits s e) :
    e = .leadingZeros ∨ (∃ o, e = .invalidCharacter s o) ∨ e = .invalidIntegerOverflow := by
  cases e with
  | leadingZeros => exact Or.inl rfl
  | invalidCharacter src o => simp only [Admits] at h; obtain ⟨rfl, _⟩ := h; exact Or.inr (Or.inl ⟨o, rfl⟩)
  | invalidIntegerEmpty => simp only [Admits] at h; subst h; simp at hz
  | invalidIntegerOverflow => exact Or.inr (Or.inr rfl)

example : Admits [48, 120] .leadingZeros ∧ Admits [48, 120] (.invalidCharacter [48, 120] 1) := by
  refine ⟨⟨by decide, by decide⟩, rfl, by decide⟩

example : Index.fromStr [48, 49] = .err .leadingZeros := by decide
example : Index.fromStr [43, 49] = .err (.invalidCharacter [43, 49] 0) := by decide
example : Index.fromStr [49, 50] = .ok (.num 12) := by decide
example : validIndexStr [49, 50] = true := by decide
-- "1٣2": Rust reports char offset 1, the model byte offset 1; the char there is the 2-byte `٣`
example : Index.fromStr [49, 217, 163, 50] = .err (.invalidCharacter [49, 217, 163, 50] 1) := by decide
example : Jp.Spec.Utf8.chars [49, 217, 163, 50] = some [[49], [217, 163], [50]] := by decide

end Jp.C16
