import Jp.Props.C02
import Jp.Lemmas.C14Helpers
/-
  C14 — A parse error pinpoints the first offence and keeps the offending input.
  Builds on `C02.parse_eq_spec`.
-/
namespace Jp.C14
open Jp Jp.Spec

-- OBLIGATIONS
-- no_leading_slash_iff invalid_encoding_offsets report_keeps_input label_inside label_starts_at_tilde

/-- `NoLeadingSlash` exactly when the non-empty input does not start with `/` -/
theorem no_leading_slash_iff (s : Bytes) :
    validate s = .err .noLeadingSlash ↔ (s ≠ [] ∧ s.head? ≠ some 47) := by
  constructor
  · intro h
    rcases validate_err s _ h with ⟨_, h1, h2⟩ | ⟨c, po, _, _, _, he⟩
    · exact ⟨h1, h2⟩
    · simp at he
  · rintro ⟨h1, h2⟩
    cases s with
    | nil => exact absurd rfl h1
    | cons b r =>
      have hb : b ≠ 47 := by simpa using h2
      simp [validate, validateBytes, hb]

/-- otherwise `InvalidEncoding` whose complete offset is the first `~` not followed by `0`/`1`,
    whose pointer offset is the nearest `/` at or before it, and whose source offset is their
    difference -/
theorem invalid_encoding_offsets (s : Bytes) (po so : Nat) (k : EncKind)
    (h : validate s = .err (.invalidEncoding po so k)) :
    firstBadTilde s = some (po + so) ∧ lastSlashAtOrBefore s (po + so) = some po ∧
    (ParseError.invalidEncoding po so k).completeOffset = po + so ∧
    s[po + so]? = some 126 ∧ s[po]? = some 47 ∧ k = .tilde := by
  rcases validate_err s _ h with ⟨he, _, _⟩ | ⟨c, po', _, hc, hp, he⟩
  · simp at he
  · simp only [ParseError.invalidEncoding.injEq] at he
    obtain ⟨rfl, rfl, rfl⟩ := he
    have hlt := rfind_lt 47 _ _ hp
    have hget := rfind_get 47 _ _ hp
    simp only [List.length_take] at hlt
    have hle : po ≤ c := by omega
    have e : po + (c - po) = c := by omega
    rw [e]
    refine ⟨hc, hp, ?_, fbt_get s c hc, ?_, rfl⟩
    · simp only [ParseError.completeOffset, ParseError.sourceOffset, ParseError.pointerOffset]
      omega
    · rw [List.getElem?_take] at hget
      split at hget
      · exact hget
      · simp at hget

/-- the report of `PointerBuf::parse` hands back the same error and the original string -/
theorem report_keeps_input (s s' : Bytes) (e : ParseError) (h : PointerBuf.parse s = .err (e, s')) :
    s' = s ∧ Pointer.parse s = .err e := by
  unfold PointerBuf.parse at h
  unfold Pointer.parse
  cases hv : validate s with
  | ok u => rw [hv] at h; simp at h
  | err e' =>
    rw [hv] at h
    simp only [Res.err.injEq, Prod.mk.injEq] at h
    obtain ⟨rfl, rfl⟩ := h
    exact ⟨rfl, rfl⟩
  | panic m => rw [hv] at h; simp at h

/-- the diagnostic label lies entirely inside the rejected string -/
theorem label_inside (s : Bytes) (e : ParseError) (h : validate s = .err e) :
    (e.label s).1 + (e.label s).2 ≤ s.length := by
  cases e with
  | noLeadingSlash =>
    simp [ParseError.label, ParseError.completeOffset, ParseError.sourceOffset,
      ParseError.pointerOffset, ParseError.invalidEncodingLen]
  | invalidEncoding po so k =>
    obtain ⟨_, _, hco, hget, _, _⟩ := invalid_encoding_offsets s po so k h
    have hlt : po + so < s.length := by
      rcases List.getElem?_eq_some_iff.mp hget with ⟨hl, _⟩
      exact hl
    simp only [ParseError.label, ParseError.invalidEncodingLen]
    rw [hco]
    split <;> omega

/-- … beginning at the offending `~` for an encoding error -/
theorem label_starts_at_tilde (s : Bytes) (po so : Nat) (k : EncKind)
    (h : validate s = .err (.invalidEncoding po so k)) :
    ((ParseError.invalidEncoding po so k).label s).1 = po + so ∧
    firstBadTilde s = some (po + so) ∧ 1 ≤ ((ParseError.invalidEncoding po so k).label s).2 := by
  obtain ⟨hf, _, hco, _, _, _⟩ := invalid_encoding_offsets s po so k h
  refine ⟨?_, hf, ?_⟩
  · simp only [ParseError.label]
    exact hco
  · simp only [ParseError.label, ParseError.invalidEncodingLen]
    split <;> omega

example : (ParseError.invalidEncoding 0 1 .tilde).label [47, 126] = (1, 1) := by decide   -- was (1,2) before 9e2c90f
example : (ParseError.invalidEncoding 4 4 .tilde).label [47,102,111,111,47,98,97,114,126] = (8, 1) := by decide
example : (ParseError.invalidEncoding 0 1 .tilde).label [47, 126, 120] = (1, 2) := by decide

end Jp.C14
