import Jp.Lemmas.Valid
import Jp.Lemmas.C12
import Jp.Lemmas.Bounds
import Jp.Lemmas.Utf8Cuts
/-
  C12 — Splitting and range-slicing return the right sub-list as a borrowed view.
  Model: the eight `PointerIndex::get` loops of `src/pointer/slice.rs` (state idx/offset/start/end),
  `split_front`, `split_back`, `parent`, `split_at`. A result is a byte span `(s, e)` of the receiver.
  Spec: the range table (`rangeSpec …`) giving the half-open token range `[a, b)` denoted.
-/
namespace Jp.C12
open Jp Jp.Spec

/-- what a span must be for the token range `[a, b)` of `p`: the offsets of tokens `a` and `b` -/
def spanOf (p : Bytes) (r : Option (Nat × Nat)) : Res Unit (Option Span) :=
  .ok (r.map fun (a, b) => (off (tokens p) a, off (tokens p) b))

-- OBLIGATIONS
-- getRange_spec getRangeFrom_spec getRangeTo_spec getRangeIncl_spec getRangeToIncl_spec getRangeFull_spec
-- getBounds_spec span_is_sublist no_panic splitAt_iff splitAt_concat splitFront_spec splitBack_spec
-- parent_spec splitFrontV_view splitBackV_view take_drop_join excluded_max_none
-- loop_accumulators_bounded views_are_utf8 splits_are_utf8

theorem getRange_spec (p : Bytes) (a b : Nat) (h : validPtr p = true) :
    getRange p a b = spanOf p (rangeSpec (count p) a b) := by
  obtain ⟨ts, rfl, hts, hns, hv⟩ := valid_decomp h
  unfold getRange spanOf count rangeSpec
  rw [hts]
  by_cases hba : b < a
  · have : ¬ a ≤ b := by omega
    simp [hba, this]
  · rw [if_neg hba]
    have hab : a ≤ b := by omega
    have h1 := rangeLoop_so a b ts 0 0 none (Nat.zero_le _) hab
    have h2 := rangeLoop_rest a b ts 0 0 none (Nat.zero_le _)
    generalize rangeLoop a b ts 0 0 none = r at h1 h2
    obtain ⟨idx, offset, so, eo⟩ := r
    simp only [Nat.sub_zero, Nat.zero_add, Nat.zero_le, true_and] at h1 h2
    by_cases hb : b < ts.length
    · rw [if_pos hb] at h2
      have ha : a < ts.length := by omega
      rw [if_pos ha] at h1
      simp only [Prod.mk.injEq] at h2
      obtain ⟨rfl, rfl, rfl⟩ := h2
      subst h1
      simp only [if_true]
      rw [sliceChecked_off ts a idx hab]
      have : a ≤ idx ∧ a < ts.length ∧ idx ≤ ts.length := by omega
      simp [this]
    · rw [if_neg hb] at h2
      simp only [Prod.mk.injEq] at h2
      obtain ⟨rfl, rfl, rfl⟩ := h2
      subst h1
      by_cases hbn : ts.length = b
      · subst hbn
        by_cases ha : a < ts.length
        · simp only [if_true, if_pos ha]
          rw [sliceChecked_off ts a ts.length hab]
          have : a ≤ ts.length ∧ a < ts.length ∧ ts.length ≤ ts.length := by omega
          simp [this]
        · simp [ha]
      · have : ¬ (a ≤ b ∧ a < ts.length ∧ b ≤ ts.length) := by omega
        simp only [if_neg hbn, if_neg this]
        split <;> simp_all

theorem getRangeFrom_spec (p : Bytes) (a : Nat) (h : validPtr p = true) :
    getRangeFrom p a = spanOf p (rangeFromSpec (count p) a) := by
  obtain ⟨ts, rfl, hts, hns, hv⟩ := valid_decomp h
  unfold getRangeFrom spanOf count rangeFromSpec
  rw [hts, rangeFromLoop_eq _ _ _ _ (Nat.zero_le _)]
  simp only [Nat.sub_zero, Nat.zero_add]
  by_cases hlt : a < ts.length
  · simp only [if_pos hlt, Option.map_some]
    rw [ofToks_length]; exact sliceChecked_off ts a ts.length (by omega)
  · simp [if_neg hlt]

theorem getRangeTo_spec (p : Bytes) (b : Nat) (h : validPtr p = true) :
    getRangeTo p b = spanOf p (rangeToSpec (count p) b) := by
  obtain ⟨ts, rfl, hts, hns, hv⟩ := valid_decomp h
  unfold getRangeTo spanOf count rangeToSpec
  rw [hts, rangeToLoop_eq _ _ _ _ (Nat.zero_le _)]
  simp only [Nat.sub_zero, Nat.zero_add]
  have hs := sliceChecked_off ts 0 b (Nat.zero_le _)
  rw [off_zero] at hs
  by_cases hlt : b < ts.length
  · have : b ≤ ts.length := by omega
    simp only [if_pos hlt, if_pos this, if_true, Option.map_some, off_zero]
    exact hs
  · simp only [if_neg hlt]
    by_cases hbn : ts.length = b
    · subst hbn
      simp only [if_true, Nat.le_refl, Option.map_some, off_zero]
      exact hs
    · have : ¬ b ≤ ts.length := by omega
      simp [hbn, this]

theorem getRangeIncl_spec (p : Bytes) (a b : Nat) (h : validPtr p = true) :
    getRangeIncl p a b = spanOf p (rangeInclSpec (count p) a b) := by
  obtain ⟨ts, rfl, hts, hns, hv⟩ := valid_decomp h
  unfold getRangeIncl spanOf count rangeInclSpec
  rw [hts]
  by_cases hba : b < a
  · have : ¬ a ≤ b := by omega
    simp [hba, this]
  · rw [if_neg hba]
    have hab : a ≤ b := by omega
    have h1 := rangeInclLoop_fst a b ts 0 0 none (Nat.zero_le _) hab
    have h2 := rangeInclLoop_snd a b ts 0 0 none (Nat.zero_le _)
    generalize rangeInclLoop a b ts 0 0 none = r at h1 h2
    obtain ⟨so, eo⟩ := r
    simp only [Nat.sub_zero, Nat.zero_add, Nat.zero_le, true_and] at h1 h2
    subst h1 h2
    by_cases hb : b < ts.length
    · have ha : a < ts.length := by omega
      simp only [if_pos hb, if_pos ha]
      rw [sliceChecked_off ts a (b + 1) (by omega)]
      simp [hab, hb]
    · have : ¬ (a ≤ b ∧ b < ts.length) := by omega
      simp only [if_neg hb, if_neg this]
      split <;> simp_all

theorem getRangeToIncl_spec (p : Bytes) (b : Nat) (h : validPtr p = true) :
    getRangeToIncl p b = spanOf p (rangeToInclSpec (count p) b) := by
  obtain ⟨ts, rfl, hts, hns, hv⟩ := valid_decomp h
  unfold getRangeToIncl spanOf count rangeToInclSpec
  rw [hts, rangeToInclLoop_eq _ _ _ _ (Nat.zero_le _)]
  simp only [Nat.sub_zero, Nat.zero_add]
  have hs := sliceChecked_off ts 0 (b + 1) (Nat.zero_le _)
  rw [off_zero] at hs
  by_cases hlt : b < ts.length
  · simp only [if_pos hlt, Option.map_some, off_zero]
    exact hs
  · simp [if_neg hlt]

theorem getRangeFull_spec (p : Bytes) (h : validPtr p = true) :
    getRangeFull p = spanOf p (rangeFullSpec (count p)) := by
  obtain ⟨ts, rfl, hts, hns, hv⟩ := valid_decomp h
  unfold getRangeFull spanOf count rangeFullSpec
  rw [hts]
  simp [off_zero, ofToks_length]

/-- all nine `Bound` pairings, for every pair of bounds (no restriction to `usize`: in particular
    `Excluded(usize::MAX)` gives `none`, not a panic and not a wrapped range) -/
theorem getBounds_spec (p : Bytes) (lo hi : Bound) (h : validPtr p = true) :
    getBounds p lo hi = spanOf p (boundsSpec (count p) lo hi) := by
  cases lo with
  | included s =>
    cases hi with
    | included e => exact getRangeIncl_spec p _ _ h
    | excluded e => exact getRange_spec p _ _ h
    | unbounded => exact getRangeFrom_spec p _ h
  | excluded s =>
    by_cases hs : s < usizeMax
    · cases hi with
      | included e => simp only [getBounds, boundsSpec, checkedSucc, if_pos hs]; exact getRangeIncl_spec p _ _ h
      | excluded e => simp only [getBounds, boundsSpec, checkedSucc, if_pos hs]; exact getRange_spec p _ _ h
      | unbounded => simp only [getBounds, boundsSpec, checkedSucc, if_pos hs]; exact getRangeFrom_spec p _ h
    · cases hi <;> simp [getBounds, boundsSpec, checkedSucc, if_neg hs, spanOf]
  | unbounded =>
    cases hi with
    | included e => exact getRangeToIncl_spec p _ h
    | excluded e => exact getRangeTo_spec p _ h
    | unbounded => exact getRangeFull_spec p h

/-- the bytes of the span for token range `[a, b)` are exactly the text of that sub-list of tokens -/
theorem span_is_sublist (p : Bytes) (a b : Nat) (h : validPtr p = true) (hab : a ≤ b)
    (hb : b ≤ count p) :
    (p.drop (off (tokens p) a)).take (off (tokens p) b - off (tokens p) a) =
      ofToks (((tokens p).drop a).take (b - a)) := by
  obtain ⟨ts, rfl, hts, hns, hv⟩ := valid_decomp h
  rw [hts, drop_off]
  have e : off ts b - off ts a = off (ts.drop a) (b - a) := by
    have := off_add_drop ts a (b - a)
    have e2 : a + (b - a) = b := by omega
    rw [e2] at this; omega
  rw [e, take_off]

/-- no range form and no bound value makes any `get` panic -/
theorem no_panic (p : Bytes) (lo hi : Bound) (a b : Nat) (h : validPtr p = true) (m : String) :
    getBounds p lo hi ≠ .panic m ∧ getRange p a b ≠ .panic m ∧ getRangeFrom p a ≠ .panic m ∧
    getRangeTo p b ≠ .panic m ∧ getRangeIncl p a b ≠ .panic m ∧ getRangeToIncl p b ≠ .panic m := by
  rw [getBounds_spec p lo hi h, getRange_spec p a b h, getRangeFrom_spec p a h, getRangeTo_spec p b h,
    getRangeIncl_spec p a b h, getRangeToIncl_spec p b h]
  simp [spanOf]

/-- `Excluded(usize::MAX)` as a start bound yields `None` -/
theorem excluded_max_none (p : Bytes) (hi : Bound) : getBounds p (.excluded usizeMax) hi = .ok none := by
  cases hi <;> simp [getBounds, checkedSucc]

/-- `split_at(k)` succeeds exactly when byte `k` is a separator -/
theorem splitAt_iff (p : Bytes) (k : Nat) : (splitAt p k).isSome = true ↔ p[k]? = some 47 := by
  unfold splitAt
  by_cases hk : p[k]? = some 47 <;> simp [hk]

/-- … and its pieces are valid pointers that re-concatenate to the original -/
theorem splitAt_concat (p h t : Bytes) (k : Nat) (hp : validPtr p = true) (hs : splitAt p k = some (h, t)) :
    h ++ t = p ∧ validPtr h = true ∧ validPtr t = true ∧ tokens p = tokens h ++ tokens t := by
  unfold splitAt at hs
  by_cases hk : p[k]? = some 47
  · simp only [hk, ne_eq, not_true_eq_false, if_false, Option.some.injEq, Prod.mk.injEq] at hs
    obtain ⟨rfl, rfl⟩ := hs
    refine ⟨List.take_append_drop k p, ?_⟩
    have hd := take_append_drop_of_getElem? p k 47 hk
    generalize ha : p.take k = a at *
    generalize hb : p.drop (k + 1) = b at *
    have hpe : p = a ++ 47 :: b := by rw [← hd, ← ha]; exact (List.take_append_drop k p).symm
    rw [hd]
    subst hpe
    cases a with
    | nil =>
      refine ⟨by simp [validPtr], by simpa using hp, ?_⟩
      simp [tokens, splitOn]
    | cons c a' =>
      simp only [validPtr, List.cons_append, List.isEmpty_cons, List.head?_cons, Bool.false_or,
        Bool.and_eq_true, beq_iff_eq, Option.some.injEq] at hp
      obtain ⟨rfl, hto⟩ := hp
      rw [tildesOk_slash_cons, tildesOk_append_slash'] at hto
      simp only [Bool.and_eq_true] at hto
      refine ⟨?_, ?_, ?_⟩
      · simp [validPtr, tildesOk_slash_cons, hto.1]
      · simp [validPtr, tildesOk_slash_cons, hto.2]
      · simp [tokens, splitOn, splitOn_append_slash']
  · simp [hk] at hs

/-- `split_front` is head / tail of the token list -/
theorem splitFront_spec (p : Bytes) (h : validPtr p = true) :
    splitFront p = match tokens p with
      | [] => none
      | t :: ts => some (t, ofToks ts) := by
  obtain ⟨ts, rfl, hts, hns, hv⟩ := valid_decomp h
  rw [hts]
  cases ts with
  | nil => simp [ofToks, splitFront]
  | cons t ts => simp only []; exact splitFront_ofToks_cons t ts (hns t (by simp))

/-- `split_back` is init / last of the token list -/
theorem splitBack_spec (p : Bytes) (h : validPtr p = true) :
    splitBack p = match (tokens p).getLast? with
      | none => none
      | some t => some (ofToks (tokens p).dropLast, t) := by
  obtain ⟨ts, rfl, hts, hns, hv⟩ := valid_decomp h
  rw [hts]
  rcases List.eq_nil_or_concat ts with rfl | ⟨us, t, rfl⟩
  · simp [ofToks, splitBack, rsplitOnce]
  · simp only [List.concat_eq_append, List.getLast?_append, List.getLast?_singleton, Option.some_or, ne_eq,
      List.cons_ne_self, not_false_eq_true, List.dropLast_append_of_ne_nil, List.dropLast_singleton, List.append_nil]
    exact splitBack_ofToks_snoc us t (hns t (by simp))

theorem parent_spec (p : Bytes) (h : validPtr p = true) :
    parent p = if (tokens p).isEmpty then none else some (ofToks (tokens p).dropLast) := by
  have hb := splitBack_spec p h
  unfold splitBack at hb
  unfold parent
  rw [hb]
  rcases List.eq_nil_or_concat (tokens p) with he | ⟨us, t, he⟩
  · simp [he]
  · simp [he]

/-- the remainder of `split_front` is a view: the bytes of the span are the remainder's text -/
theorem splitFrontV_view (p tok : Bytes) (sp : Span) (h : splitFrontV p = some (tok, sp)) :
    ∃ rem, splitFront p = some (tok, rem) ∧ (p.drop sp.1).take (sp.2 - sp.1) = rem := by
  cases p with
  | nil => simp [splitFrontV] at h
  | cons c rest =>
    simp only [splitFrontV] at h
    simp only [splitFront]
    cases hf : find 47 rest with
    | none =>
      simp only [hf, Option.some.injEq, Prod.mk.injEq] at h
      obtain ⟨rfl, rfl⟩ := h
      exact ⟨[], rfl, by simp⟩
    | some idx =>
      simp only [hf, Option.some.injEq, Prod.mk.injEq] at h
      obtain ⟨rfl, rfl⟩ := h
      refine ⟨rest.drop idx, rfl, ?_⟩
      have e : 1 + idx = idx + 1 := by omega
      simp only [e, List.drop_succ_cons]
      apply List.take_of_length_le
      simp

theorem splitBackV_view (p tok : Bytes) (sp : Span) (h : splitBackV p = some (sp, tok)) :
    ∃ par, splitBack p = some (par, tok) ∧ (p.drop sp.1).take (sp.2 - sp.1) = par := by
  unfold splitBackV at h
  cases hr : rfind 47 p with
  | none => simp [hr] at h
  | some idx =>
    simp only [hr, Option.some.injEq, Prod.mk.injEq] at h
    obtain ⟨rfl, rfl⟩ := h
    refine ⟨p.take idx, ?_, by simp⟩
    unfold splitBack
    exact rfind_some_rsplitOnce 47 p idx hr

/-- `get(..k)` and `get(k..)` re-concatenate to the original -/
theorem take_drop_join (p : Bytes) (k : Nat) (h : validPtr p = true) (hk : k ≤ count p) :
    ofToks ((tokens p).take k) ++ ofToks ((tokens p).drop k) = p := by
  have _ := hk
  rw [← ofToks_append, List.take_append_drop]
  exact ofToks_tokens p (validPtr_shape h)

/-- no `usize` overflow in the five range loops: started as the `get` impls start them (`idx = 0`,
    `offset = 0`, no start offset yet) on the tokens of a valid pointer, for every pair of range ends
    `a`, `b`, the final `idx` is at most the number of tokens, and the final `offset` and every recorded
    start/end offset is at most the length of the text — itself at least the number of tokens.
    (`idx` and `offset` only grow during a loop, so all their intermediate values are bounded too;
    the per-iteration invariant is `Bounds.acc_step`.) -/
theorem loop_accumulators_bounded (p : Bytes) (a b : Nat) (h : validPtr p = true) :
    count p ≤ p.length ∧
    -- `a..b`: final `(idx, offset, start_offset, end_offset)`
    (match rangeLoop a b (tokens p) 0 0 none with
      | (idx, offset, so, eo) =>
        idx ≤ count p ∧ offset ≤ p.length ∧
        (∀ o, so = some o → o ≤ p.length) ∧ (∀ o, eo = some o → o ≤ p.length)) ∧
    -- `a..`: `start_offset`
    (∀ o, rangeFromLoop a (tokens p) 0 0 = some o → o ≤ p.length) ∧
    -- `..b`: final `(idx, offset, end_offset)`
    (match rangeToLoop b (tokens p) 0 0 with
      | (idx, offset, eo) =>
        idx ≤ count p ∧ offset ≤ p.length ∧ (∀ o, eo = some o → o ≤ p.length)) ∧
    -- `a..=b`: `(start_offset, end_offset)`
    (match rangeInclLoop a b (tokens p) 0 0 none with
      | (so, eo) => (∀ o, so = some o → o ≤ p.length) ∧ (∀ o, eo = some o → o ≤ p.length)) ∧
    -- `..=b`: `end_offset`
    (∀ o, rangeToInclLoop b (tokens p) 0 0 = some o → o ≤ p.length) :=
  ⟨Bounds.count_le_length p h, Bounds.rangeLoop_bounded p a b h, Bounds.rangeFromLoop_bounded p a h,
    Bounds.rangeToLoop_bounded p b h, Bounds.rangeInclLoop_bounded p a b h,
    Bounds.rangeToInclLoop_bounded p b h⟩

/-! ### views are well-formed UTF-8

  `slice.rs` builds every range view with `from_utf8_unchecked` ("start and end offsets are token
  boundaries, so the slice is valid utf-8") and `split_at` with `new_unchecked`. A token boundary is the
  position of a `/` byte (47, ASCII) or the end of the text, and such a position is a char boundary of
  any well-formed UTF-8 string (`Jp.Spec.Utf8.chars_split_at_ascii`). -/

/-- the token range denoted by a pair of bounds is ordered and within the token count -/
theorem boundsSpec_range (n : Nat) (lo hi : Bound) (a b : Nat) (h : boundsSpec n lo hi = some (a, b)) :
    a ≤ b ∧ b ≤ n := by
  cases lo <;> cases hi <;>
    simp only [boundsSpec, rangeSpec, rangeFromSpec, rangeToSpec, rangeInclSpec, rangeToInclSpec,
      rangeFullSpec] at h <;>
    (repeat' split at h) <;>
    simp only [Option.some.injEq, Prod.mk.injEq, reduceCtorEq] at h <;> omega

/-- the offset of token `k` is the end of the text or the position of a `/` -/
theorem off_is_boundary (ts : List Bytes) (k : Nat) (hk : k ≤ ts.length) :
    off ts k = (ofToks ts).length ∨ ∃ b, (ofToks ts)[off ts k]? = some b ∧ b < 128 := by
  rcases Nat.lt_or_ge k ts.length with hlt | hge
  · right
    refine ⟨47, ?_, by omega⟩
    have e : (ofToks ts)[off ts k]? = ((ofToks ts).drop (off ts k)).head? := by
      rw [List.head?_drop]
    rw [e, drop_off]
    apply ofToks_head
    intro hnil
    have := congrArg List.length hnil
    simp only [List.length_drop, List.length_nil] at this
    omega
  · left
    have : k = ts.length := by omega
    subst this
    exact (ofToks_length ts).symm

/-- every range view of a well-formed UTF-8 pointer is well-formed UTF-8 (what the
    `from_utf8_unchecked` SAFETY comments of `slice.rs` rely on) -/
theorem views_are_utf8 (p : Bytes) (lo hi : Bound) (sp : Span) (cs : List Bytes)
    (hp : validPtr p = true) (hutf : Jp.Spec.Utf8.chars p = some cs)
    (hg : getBounds p lo hi = .ok (some sp)) :
    ∃ c, Jp.Spec.Utf8.chars ((p.drop sp.1).take (sp.2 - sp.1)) = some c := by
  rw [getBounds_spec p lo hi hp] at hg
  obtain ⟨ts, rfl, hts, hns, hv⟩ := valid_decomp hp
  simp only [spanOf, count, hts, Res.ok.injEq, Option.map_eq_some_iff] at hg
  obtain ⟨⟨a, b⟩, hab, rfl⟩ := hg
  obtain ⟨h1, h2⟩ := boundsSpec_range _ lo hi a b hab
  exact Jp.Spec.Utf8.chars_slice_ascii (ofToks ts) (off ts a) (off ts b) cs hutf (off_mono ts h1)
    (off_le ts b) (off_is_boundary ts a (by omega)) (off_is_boundary ts b h2)

/-- both halves of a successful `split_at` of a well-formed UTF-8 pointer are well-formed UTF-8 -/
theorem splits_are_utf8 (p h t : Bytes) (k : Nat) (cs : List Bytes)
    (hutf : Jp.Spec.Utf8.chars p = some cs) (hs : splitAt p k = some (h, t)) :
    (∃ c, Jp.Spec.Utf8.chars h = some c) ∧ (∃ c, Jp.Spec.Utf8.chars t = some c) := by
  unfold splitAt at hs
  by_cases hk : p[k]? = some 47
  · simp only [hk, ne_eq, not_true_eq_false, if_false, Option.some.injEq, Prod.mk.injEq] at hs
    obtain ⟨rfl, rfl⟩ := hs
    have hlt : k < p.length := (List.getElem?_eq_some_iff.mp hk).1
    exact Jp.Spec.Utf8.chars_split_at_ascii p k cs hutf (by omega) (Or.inr ⟨47, hk, by omega⟩)
  · simp [hk] at hs

example : getBounds [47, 97, 47, 98] (.excluded usizeMax) .unbounded = .ok none := by decide
example : getRange [] 0 0 = .ok none ∧ getRangeTo [] 0 = .ok (some (0, 0)) := by decide
example : getRangeIncl [47, 126, 48, 47, 47, 98] 1 2 = .ok (some (3, 6)) := by decide
-- "/é/b": `split_at(3)` cuts at the second `/`; both halves are well-formed UTF-8
example : splitAt [47, 195, 169, 47, 98] 3 = some ([47, 195, 169], [47, 98]) := by decide
example : (∃ c, Jp.Spec.Utf8.chars [47, 195, 169] = some c) ∧ (∃ c, Jp.Spec.Utf8.chars [47, 98] = some c) :=
  splits_are_utf8 [47, 195, 169, 47, 98] [47, 195, 169] [47, 98] 3 [[47], [195, 169], [47], [98]]
    (by decide) (by decide)
-- `split_at(2)` would cut inside `é` (byte 169 is not `/`): refused
example : splitAt [47, 195, 169, 47, 98] 2 = none := by decide
-- the range view `get(1..)` of "/é/b" is bytes 3..5 = "/b"
example : getBounds [47, 195, 169, 47, 98] (.included 1) .unbounded = .ok (some (3, 5)) := by decide

end Jp.C12
