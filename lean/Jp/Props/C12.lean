import Jp.Lemmas.Valid
/-
  C12 — Splitting and range-slicing return the right sub-list as a borrowed view.
  Model: the eight `PointerIndex::get` loops of `src/pointer/slice.rs` (state idx/offset/start/end),
  `split_front`, `split_back`, `parent`, `split_at`. A result is a byte span `(s, e)` of the receiver.
  Spec: the range table (`rangeSpec …`) giving the half-open token range `[a, b)` denoted.
-/
namespace Jp.C12
open Jp Jp.Spec

/-- what a span must be for the token range `[a, b)` of `p`: the offsets of tokens `a` and `b` -/
def spanOf (p : Bytes) (r : Option (Nat × Nat)) : Res Unit (Option Span) :=
  .ok (r.map fun (a, b) => (off (tokens p) a, off (tokens p) b))

-- OBLIGATIONS
-- getRange_spec getRangeFrom_spec getRangeTo_spec getRangeIncl_spec getRangeToIncl_spec getRangeFull_spec
-- getBounds_spec span_is_sublist no_panic splitAt_iff splitAt_concat splitFront_spec splitBack_spec
-- parent_spec splitFrontV_view splitBackV_view take_drop_join excluded_max_none

theorem getRange_spec (p : Bytes) (a b : Nat) (h : validPtr p = true) :
    getRange p a b = spanOf p (rangeSpec (count p) a b) := by
  sorry

theorem getRangeFrom_spec (p : Bytes) (a : Nat) (h : validPtr p = true) :
    getRangeFrom p a = spanOf p (rangeFromSpec (count p) a) := by
  sorry

theorem getRangeTo_spec (p : Bytes) (b : Nat) (h : validPtr p = true) :
    getRangeTo p b = spanOf p (rangeToSpec (count p) b) := by
  sorry

theorem getRangeIncl_spec (p : Bytes) (a b : Nat) (h : validPtr p = true) :
    getRangeIncl p a b = spanOf p (rangeInclSpec (count p) a b) := by
  sorry

theorem getRangeToIncl_spec (p : Bytes) (b : Nat) (h : validPtr p = true) :
    getRangeToIncl p b = spanOf p (rangeToInclSpec (count p) b) := by
  sorry

theorem getRangeFull_spec (p : Bytes) (h : validPtr p = true) :
    getRangeFull p = spanOf p (rangeFullSpec (count p)) := by
  sorry

/-- all nine `Bound` pairings, for every pair of bounds (no restriction to `usize`: in particular
    `Excluded(usize::MAX)` gives `none`, not a panic and not a wrapped range) -/
theorem getBounds_spec (p : Bytes) (lo hi : Bound) (h : validPtr p = true) :
    getBounds p lo hi = spanOf p (boundsSpec (count p) lo hi) := by
  sorry

/-- the bytes of the span for token range `[a, b)` are exactly the text of that sub-list of tokens -/
theorem span_is_sublist (p : Bytes) (a b : Nat) (h : validPtr p = true) (hab : a ≤ b)
    (hb : b ≤ count p) :
    (p.drop (off (tokens p) a)).take (off (tokens p) b - off (tokens p) a) =
      ofToks (((tokens p).drop a).take (b - a)) := by
  sorry

/-- no range form and no bound value makes any `get` panic -/
theorem no_panic (p : Bytes) (lo hi : Bound) (a b : Nat) (h : validPtr p = true) (m : String) :
    getBounds p lo hi ≠ .panic m ∧ getRange p a b ≠ .panic m ∧ getRangeFrom p a ≠ .panic m ∧
    getRangeTo p b ≠ .panic m ∧ getRangeIncl p a b ≠ .panic m ∧ getRangeToIncl p b ≠ .panic m := by
  sorry

/-- `Excluded(usize::MAX)` as a start bound yields `None` -/
theorem excluded_max_none (p : Bytes) (hi : Bound) : getBounds p (.excluded usizeMax) hi = .ok none := by
  sorry

/-- `split_at(k)` succeeds exactly when byte `k` is a separator -/
theorem splitAt_iff (p : Bytes) (k : Nat) : (splitAt p k).isSome = true ↔ p[k]? = some 47 := by
  sorry

/-- … and its pieces are valid pointers that re-concatenate to the original -/
theorem splitAt_concat (p h t : Bytes) (k : Nat) (hp : validPtr p = true) (hs : splitAt p k = some (h, t)) :
    h ++ t = p ∧ validPtr h = true ∧ validPtr t = true ∧ tokens p = tokens h ++ tokens t := by
  sorry

/-- `split_front` is head / tail of the token list -/
theorem splitFront_spec (p : Bytes) (h : validPtr p = true) :
    splitFront p = match tokens p with
      | [] => none
      | t :: ts => some (t, ofToks ts) := by
  sorry

/-- `split_back` is init / last of the token list -/
theorem splitBack_spec (p : Bytes) (h : validPtr p = true) :
    splitBack p = match (tokens p).getLast? with
      | none => none
      | some t => some (ofToks (tokens p).dropLast, t) := by
  sorry

theorem parent_spec (p : Bytes) (h : validPtr p = true) :
    parent p = if (tokens p).isEmpty then none else some (ofToks (tokens p).dropLast) := by
  sorry

/-- the remainder of `split_front` is a view: the bytes of the span are the remainder's text -/
theorem splitFrontV_view (p tok : Bytes) (sp : Span) (h : splitFrontV p = some (tok, sp)) :
    ∃ rem, splitFront p = some (tok, rem) ∧ (p.drop sp.1).take (sp.2 - sp.1) = rem := by
  sorry

theorem splitBackV_view (p tok : Bytes) (sp : Span) (h : splitBackV p = some (sp, tok)) :
    ∃ par, splitBack p = some (par, tok) ∧ (p.drop sp.1).take (sp.2 - sp.1) = par := by
  sorry

/-- `get(..k)` and `get(k..)` re-concatenate to the original -/
theorem take_drop_join (p : Bytes) (k : Nat) (h : validPtr p = true) (hk : k ≤ count p) :
    ofToks ((tokens p).take k) ++ ofToks ((tokens p).drop k) = p := by
  sorry

example : getBounds [47, 97, 47, 98] (.excluded usizeMax) .unbounded = .ok none := by decide
example : getRange [] 0 0 = .ok none ∧ getRangeTo [] 0 = .ok (some (0, 0)) := by decide
example : getRangeIncl [47, 126, 48, 47, 47, 98] 1 2 = .ok (some (3, 6)) := by decide

end Jp.C12
