import Jp.Lemmas.Text
import Jp.Model.Glue
/-
  C17 — Equality, ordering and hashing of pointers coincide with those of their text.
  The theorems are shallow by nature (every impl compares the inner `str`s); the value is in the
  per-impl differential run, which the test suite lacks.
-/
namespace Jp.C17
open Jp

-- OBLIGATIONS
-- eq_impls_are_text_eq ord_impls_are_lexCmp lexCmp_eq_iff lexCmp_swap lexCmp_lt_trans lexCmp_total
-- hash_inputs_equal eq_iff_ord_eq

/-- every provided `PartialEq` returns what comparing the two texts returns -/
theorem eq_impls_are_text_eq (a b : Bytes) : ∀ f ∈ eqImpls, f.2 a b = decide (a = b) := by
  intro f hf
  simp only [eqImpls, List.mem_cons, List.not_mem_nil, or_false] at hf
  rcases hf with h | h | h | h | h | h | h | h | h | h | h | h | h | h | h | h | h | h | h <;>
    (subst h; simp only [strEq]; by_cases hab : a = b <;> simp [hab])

/-- every provided `partial_cmp` / `cmp` returns the lexicographic comparison of the texts -/
theorem ord_impls_are_lexCmp (a b : Bytes) : ∀ f ∈ ordImpls, f.2 a b = some (lexCmp a b) := by
  intro f hf
  simp only [ordImpls, List.mem_cons, List.not_mem_nil, or_false] at hf
  rcases hf with h | h | h | h | h | h | h | h | h | h | h | h | h | h | h | h | h <;>
    (subst h; simp [strPartialCmp])

/-- `lexCmp` is consistent with equality … -/
theorem lexCmp_eq_iff (a b : Bytes) : lexCmp a b = .eq ↔ a = b := by
  induction a generalizing b with
  | nil => cases b <;> simp [lexCmp]
  | cons x xs ih =>
    cases b with
    | nil => simp [lexCmp]
    | cons y ys =>
      simp only [lexCmp]
      split
      · simp; omega
      · split
        · simp; omega
        · rw [ih]; simp; omega

/-- … antisymmetric … -/
theorem lexCmp_swap (a b : Bytes) : lexCmp b a = (lexCmp a b).swap := by
  induction a generalizing b with
  | nil => cases b <;> simp [lexCmp, Ordering.swap]
  | cons x xs ih =>
    cases b with
    | nil => simp [lexCmp, Ordering.swap]
    | cons y ys =>
      simp only [lexCmp]
      by_cases h1 : x < y
      · have : ¬ y < x := by omega
        simp [h1, this, Ordering.swap]
      · by_cases h2 : y < x
        · simp [h1, h2, Ordering.swap]
        · simp [h1, h2, ih]

/-- … transitive … -/
theorem lexCmp_lt_trans (a b c : Bytes) (h1 : lexCmp a b = .lt) (h2 : lexCmp b c = .lt) :
    lexCmp a c = .lt := by
  induction a generalizing b c with
  | nil =>
    cases b with
    | nil => simp [lexCmp] at h1
    | cons y ys => cases c with
      | nil => simp [lexCmp] at h2
      | cons z zs => simp [lexCmp]
  | cons x xs ih =>
    cases b with
    | nil => simp [lexCmp] at h1
    | cons y ys =>
      cases c with
      | nil => simp [lexCmp] at h2
      | cons z zs =>
        simp only [lexCmp] at h1 h2 ⊢
        by_cases hxy : x < y
        · by_cases hyz : y < z
          · have : x < z := by omega
            simp [this]
          · by_cases hzy : z < y
            · simp [hyz, hzy] at h2
            · have : y = z := by omega
              subst this; simp [hxy]
        · by_cases hyx : y < x
          · simp [hxy, hyx] at h1
          · have hxy' : x = y := by omega
            subst hxy'
            simp only [hxy, if_false] at h1
            by_cases hyz : x < z
            · simp [hyz]
            · by_cases hzy : z < x
              · simp [hyz, hzy] at h2
              · simp only [hyz, hzy, if_false] at h2 ⊢
                exact ih _ _ h1 h2

/-- … and total: exactly one of `<`, `=`, `>` -/
theorem lexCmp_total (a b : Bytes) :
    (lexCmp a b = .lt ∧ lexCmp b a = .gt) ∨ (lexCmp a b = .eq ∧ a = b) ∨ (lexCmp a b = .gt ∧ lexCmp b a = .lt) := by
  have hs := lexCmp_swap a b
  cases h : lexCmp a b
  · left; simp [hs, h, Ordering.swap]
  · right; left; exact ⟨rfl, (lexCmp_eq_iff a b).mp h⟩
  · right; right; simp [hs, h, Ordering.swap]

/-- `Pointer`, `PointerBuf` and the text itself feed the hasher the same byte stream -/
theorem hash_inputs_equal (p : Bytes) :
    hashInputPointer p = hashInputStr p ∧ hashInputPointerBuf p = hashInputStr p := ⟨rfl, rfl⟩

/-- `==` and `cmp` never disagree -/
theorem eq_iff_ord_eq (a b : Bytes) : strEq a b = true ↔ strPartialCmp a b = some .eq := by
  simp [strEq, strPartialCmp, lexCmp_eq_iff]

example : lexCmp [47, 97] [47, 97, 47] = .lt ∧ lexCmp [47, 98] [47, 97, 47] = .gt := by decide

end Jp.C17
