import Jp.Lemmas.Bridge
import Jp.Lemmas.C07Helpers
/-
  C07 — Assign is atomic on failure, read-your-write on success, and local.
  All statements are about the model's `assign` (which returns the document on both paths).
-/
namespace Jp.C07
open Jp Jp.Spec

-- def Preserved … : see Jp/Lemmas/C07Helpers.lean
-- "nothing that existed was overwritten": every location of `D` still exists in `D'`, scalars are
-- unchanged, containers keep their kind (arrays may only grow)
--   def Preserved (D D' : Val) : Prop :=
--     ∀ l n, D.at l = some n → ∃ n', D'.at l = some n' ∧
--       (match n with
--        | .scalar a => n' = .scalar a
--        | .arr xs => ∃ ys, n' = .arr ys ∧ xs.length ≤ ys.length
--        | .obj _ => ∃ kvs', n' = .obj kvs')

-- OBLIGATIONS
-- atomic read_your_write frame replaced_some replaced_none idempotent

/-- if assign returns an error the document is unchanged -/
theorem atomic (D v : Val) (p : Bytes) (e : AssignErr) (hp : validPtr p = true)
    (h : (assign D p v).2 = .err e) :
    (assign D p v).1 = D := by
  have := assign_spec D v p hp
  cases hs : assignSpec D (tokens p) v with
  | ok dr =>
    obtain ⟨d2, r2⟩ := dr
    rw [hs] at this
    simp only [] at this
    rw [this] at h
    simp at h
  | err k => rw [hs] at this; obtain ⟨e', he⟩ := this; rw [he]
  | panic m => rw [hs] at this; exact this.elim

/-- the assigned value is found by resolving the same pointer, each `-` that addressed an array read
    as that array's new last index -/
theorem read_your_write (D v D' : Val) (p : Bytes) (r : Option Val) (hp : validPtr p = true)
    (h : assign D p v = (D', .ok r)) : walkDash D' (tokens p) = some v := by
  exact ryw_spec (tokens p) D v D' r (assign_ok_spec hp h)

/-- every location of the old document that is neither on the assigned path nor below it still
    resolves to the same value -/
theorem frame (D v D' : Val) (p q : Bytes) (r : Option Val) (lw : Loc × Val)
    (hp : validPtr p = true) (hq : validPtr q = true)
    (h : assign D p v = (D', .ok r))
    (hon : ¬ tokens q <+: tokens p) (hbelow : ¬ tokens p <+: tokens q)
    (hw : resolve D q = .ok lw) : resolve D' q = .ok lw := by
  obtain ⟨l, w⟩ := lw
  exact walk_ok_resolve hq (frame_spec (tokens p) (tokens q) D v D' r l w (tokens_valid hp)
    (tokens_valid hq) (assign_ok_spec hp h) hon hbelow (resolve_ok_walk hq hw))

/-- the returned value equals what the pointer resolved to before, whenever it resolved -/
theorem replaced_some (D v : Val) (p : Bytes) (l : Loc) (w : Val) (hp : validPtr p = true)
    (hr : resolve D p = .ok (l, w)) : (assign D p v).2 = .ok (some w) := by
  obtain ⟨d', hd⟩ := replaced_some_spec (tokens p) D v l w (resolve_ok_walk hp hr)
  rw [spec_ok_assign hp hd]

/-- … and is `None` only if nothing that existed was overwritten -/
theorem replaced_none (D v D' : Val) (p : Bytes) (hp : validPtr p = true)
    (h : assign D p v = (D', .ok none)) : Preserved D D' := by
  exact replaced_none_spec (tokens p) D v D' (assign_ok_spec hp h)

/-- repeating the same `-`-free assignment returns `Some(value)` and changes nothing -/
theorem idempotent (D v D' : Val) (p : Bytes) (r : Option Val) (hp : validPtr p = true)
    (hdash : ∀ t ∈ tokens p, t ≠ [45]) (h : assign D p v = (D', .ok r)) :
    assign D' p v = (D', .ok (some v)) := by
  exact spec_ok_assign hp (idem_spec (tokens p) D v D' r hdash (assign_ok_spec hp h))

example : walkDash (.obj [([97], .arr [.scalar [110], .scalar [116]])]) [[97], [45]] = some (.scalar [116]) := by
  rfl

end Jp.C07
