import Jp.Gen.Rs.DisplayToken
import Jp.Tie.Decoded
/-
  Jp.Tie.DisplayToken — `Display for Token` regenerated from `src/token.rs` (`write!(f, "{}", self.decoded())`) writes the *decoded* token:
  the model's `Token.toString` — what the regenerated `assign` / `expand` mean by `token.to_string()`. (DESIGN §16)
-/
namespace Jp.Tie
open Jp

theorem display_token_eq (t : Bytes) : Gen.Token.display t () = Token.toString t := by
  simp [Gen.Token.display, Token.toString, decoded_eq]

end Jp.Tie
