import Jp.Gen.Rs.AssignObjectJson
import Jp.Tie.ExpandJson
import Jp.Tie.IsRoot
/-
  Jp.Tie.AssignObjectJson — `assign::json::assign_object` regenerated from `src/assign.rs`, by cases on `obj.entry(token.to_string())`:
  occupied and last token — the member is replaced and its old value returned; occupied otherwise — `Continue` with a
  reference to the member and nothing written; vacant — the expansion of the remaining pointer is inserted. (DESIGN §16)
-/
namespace Jp.Tie
open Jp

theorem assign_object_json_eq (doc : Val) (token rem : Bytes) (loc : Loc) (kvs : List (Bytes × Val)) (src : Val) :
    Gen.json.assign_object doc token rem (loc, kvs) src =
      match lookup (Token.toString token) kvs with
      | some entry =>
        if isRoot rem then (doc.setAt (loc ++ [Step.key (Token.toString token)]) src, .done (some entry))
        else (doc, .cont (loc ++ [Step.key (Token.toString token)], entry) src)
      | none => (doc.setAt loc (.obj (kvs ++ [(Token.toString token, expand rem src)])), .done none) := by
  simp only [Gen.json.assign_object, is_root_eq, expand_json_eq]
  cases lookup (Token.toString token) kvs with
  | none => rfl
  | some entry => by_cases hr : isRoot rem = true <;> simp [hr]

end Jp.Tie
