import Jp.Gen.Rs.AssignValueJson
import Jp.Tie.AssignScalarJson
import Jp.Tie.AssignObjectJson
import Jp.Tie.AssignArrayJson
import Jp.Tie.SplitFront
import Jp.Lemmas.SetAt
import Jp.Lemmas.Bridge
/-
  Jp.Tie.AssignValueJson — `assign::json::assign_value` regenerated from `src/assign.rs` (with its helpers `assign_array`,
  `assign_object`, `assign_scalar`: Jp.Tie.Assign{Array,Object,Scalar}Json) equals the model's `assignValue`.  (DESIGN §16)

  The regenerated code keeps Rust's shape: a fuelled `while let` over `split_front` that carries a `&mut` into the
  document — a location plus the node found there — hands it to one of three helpers, and gets back `Assigned::Done` or
  `Assigned::Continue { next_dest, .. }`; every write goes through `Val.setAt` on the whole document.  The model is a
  structural recursion that returns the rebuilt node upwards.  The loop lemma states, for every location `loc` at which
  the document holds `dest`, that the loop (followed by the root write) leaves `doc.setAt loc (model's node)` and the model's
  result; `debug_assert!(idx <= array.len())`, the checked `array[idx]` and the fuel are shown never to fire.
-/
namespace Jp.Tie
open Jp

/-- the rest of `assign_value` after its loop -/
def finJ : Gen.Flow (Val × Res AssignErr (Option Val)) (Val × (Loc × Val) × Bytes × Nat × Nat × Val) →
    Val × Res AssignErr (Option Val)
  | .ret r => r
  | .done (value, dest, _, _, _, doc) => (doc.setAt dest.1 value, .ok (some dest.2))

theorem assign_value_json_loop (n : Nat) : ∀ (ptr : Bytes) (doc : Val) (loc : Loc) (dest value : Val) (offset position fuel : Nat),
    ptr.length = n → ptr.length < fuel → doc.at loc = some dest →
    finJ (Gen.json.assign_value.loop1 fuel value (loc, dest) ptr offset position doc) =
      (doc.setAt loc (assignValue ptr dest value offset position).1, (assignValue ptr dest value offset position).2) := by
  induction n using Nat.strongRecOn with
  | _ n ih =>
    intro ptr doc loc dest value offset position fuel hn hf hat
    cases fuel with
    | zero => omega
    | succ f =>
      unfold Gen.json.assign_value.loop1
      simp only [split_front_eq]
      cases hsf : splitFront ptr with
      | none => rw [assignValue_none hsf]; simp [finJ]
      | some pr =>
        obtain ⟨token, tail⟩ := pr
        have hlt : tail.length < ptr.length := splitFront_length hsf
        rw [assignValue_some hsf]
        cases dest with
        | scalar a =>
          simp [finJ, assign_scalar_json_eq]
        | arr array =>
          simp only [assign_array_json_eq]
          cases hti : Token.toIndex token with
          | err e => simp [finJ, SetAt.setAt_self doc loc _ hat]
          | panic m => simp [finJ, SetAt.setAt_self doc loc _ hat]
          | ok index =>
            simp only []
            cases hfl : Index.forLenIncl index array.length with
            | err e => simp [finJ, SetAt.setAt_self doc loc _ hat]
            | panic m => simp [finJ, SetAt.setAt_self doc loc _ hat]
            | ok idx =>
              simp only []
              cases hget : array[idx]? with
              | none => simp [finJ]
              | some elem =>
                by_cases hr : isRoot tail = true
                · simp only [hr, if_true, finJ]
                  rw [SetAt.setAt_idx doc loc array idx _ value hat hget]
                · simp only [hr]
                  have hat' := SetAt.at_idx doc loc array idx _ hat hget
                  have := ih tail.length (by omega) tail doc (loc ++ [Step.idx idx]) elem value
                    (offset + (1 + token.length)) (position + 1) f rfl (by omega) hat'
                  simp only [Bool.false_eq_true, if_false]
                  rw [this, SetAt.setAt_idx doc loc array idx _ _ hat hget]
        | obj kvs =>
          simp only [assign_object_json_eq]
          cases hl : lookup (Token.toString token) kvs with
          | none => simp [finJ]
          | some entry =>
            by_cases hr : isRoot tail = true
            · simp only [hr, if_true, finJ]
              rw [SetAt.setAt_key doc loc kvs _ entry value hat hl]
            · simp only [hr]
              have hat' := SetAt.at_key doc loc kvs _ entry hat hl
              have := ih tail.length (by omega) tail doc (loc ++ [Step.key (Token.toString token)]) entry value
                (offset + (1 + token.length)) (position + 1) f rfl (by omega) hat'
              simp only [Bool.false_eq_true, if_false]
              rw [this, SetAt.setAt_key doc loc kvs _ entry _ hat hl]

theorem assign_value_json_fin (doc : Val) (ptr : Bytes) (dest : Loc × Val) (value : Val) :
    Gen.json.assign_value doc ptr dest value =
      finJ (Gen.json.assign_value.loop1 (ptr.length + 1) value dest ptr 0 0 doc) := by
  unfold Gen.json.assign_value
  simp only []
  cases Gen.json.assign_value.loop1 (ptr.length + 1) value dest ptr 0 0 doc with
  | ret r => rfl
  | done s => obtain ⟨v, d, p, o, ps, sd⟩ := s; rfl

/-- `assign_value(ptr, dest, value)` called with a reference `dest` to the node at `loc` of `doc` -/
theorem assign_value_json_eq (doc : Val) (loc : Loc) (dest value : Val) (ptr : Bytes) (h : doc.at loc = some dest) :
    Gen.json.assign_value doc ptr (loc, dest) value =
      (doc.setAt loc (assignValue ptr dest value 0 0).1, (assignValue ptr dest value 0 0).2) := by
  rw [assign_value_json_fin]
  exact assign_value_json_loop ptr.length ptr doc loc dest value 0 0 (ptr.length + 1) rfl (by omega) h

end Jp.Tie
