import Jp.Gen.Rs.AssignErrLabels
import Jp.Tie.AssignErrPosition
import Jp.Tie.AssignErrOffset
import Jp.Model.Assign
/-
  Jp.Tie.AssignErrLabels — `<assign::Error as Diagnostic>::labels` regenerated from the source — `origin.get(position)?`, the
  `offset + 1 < len` adjustment, the token's encoded length; the label's *text* is not modelled — is the model's
  `AssignErr.label` (= `walkLabel origin position offset`). (DESIGN §16)
-/
namespace Jp.Tie
open Jp

theorem assign_err_labels_eq (e : AssignErr) (origin : Bytes) : Gen.assign.Error.labels e origin = e.label origin := by
  simp only [Gen.assign.Error.labels, assign_err_position_eq, assign_err_offset_eq, AssignErr.label, walkLabel]
  cases getToken origin e.position with
  | none => rfl
  | some tok => by_cases h : e.offset + 1 < origin.length <;> simp [h]

end Jp.Tie
