import Jp.Gen.Rs.ParseErrOffset
import Jp.Model.Pointer
/-
  Jp.Tie.ParseErrOffset — `ParseError::offset` regenerated from `src/pointer.rs` is the model's `ParseError.pointerOffset`. (DESIGN §16)
-/
namespace Jp.Tie
open Jp

/-- the older accessor `offset()` is `pointer_offset()` -/
theorem parse_err_offset_eq (e : ParseError) : Gen.ParseError.offset e = e.pointerOffset := by
  cases e <;> rfl

end Jp.Tie
