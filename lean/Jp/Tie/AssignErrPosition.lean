import Jp.Gen.Rs.AssignErrPosition
import Jp.Model.Assign
/-
  Jp.Tie.AssignErrPosition — `assign::Error::position` regenerated from the source (an or-pattern over every variant) is the model's
  accessor `AssignErr.position`. (DESIGN §16)
-/
namespace Jp.Tie
open Jp

theorem assign_err_position_eq (e : AssignErr) : Gen.assign.Error.position e = e.position := by
  cases e <;> rfl

end Jp.Tie
