import Jp.Gen.Rs.EqStringPointerBuf
import Jp.Model.Glue
/-
  Jp.Tie.EqStringPointerBuf — `impl PartialEq<PointerBuf> for String`: `eq` regenerated from `src/pointer.rs` compares the two texts — the model's `strEq`. (DESIGN §16)
-/
namespace Jp.Tie
open Jp

theorem cmp_EqStringPointerBuf_eq (a b : Bytes) : Gen.cmp.eq_String_PointerBuf a b = strEq a b := rfl

end Jp.Tie
