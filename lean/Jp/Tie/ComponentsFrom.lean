import Jp.Gen.Rs.ComponentsFrom
import Jp.Tie.PointerTokens
/-
  Jp.Tie.ComponentsFrom — `From<&Pointer> for Components` regenerated from `src/component.rs` is the model's `Components.new`. (DESIGN §16)
-/
namespace Jp.Tie
open Jp

theorem components_from_eq (p : Bytes) : Gen.Components.from_pointer p = Components.new p := rfl

end Jp.Tie
