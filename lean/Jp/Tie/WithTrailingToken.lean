import Jp.Gen.Rs.WithTrailingToken
import Jp.Tie.PushBack
/-
  Jp.Tie.WithTrailingToken — `Pointer::with_trailing_token` (`to_buf` + `push_back`) regenerated from `src/pointer.rs` is the model's `withTrailingToken`. (DESIGN §16)
-/
namespace Jp.Tie
open Jp

theorem with_trailing_token_eq (p tok : Bytes) : Gen.Pointer.with_trailing_token p tok = withTrailingToken p tok := by
  simp [Gen.Pointer.with_trailing_token, withTrailingToken, push_back_eq]

end Jp.Tie
