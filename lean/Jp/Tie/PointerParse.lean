import Jp.Gen.Rs.PointerParse
import Jp.Tie.Validate
/-
  Jp.Tie.PointerParse — `Pointer::parse` regenerated from `src/pointer.rs` is the model's door `Pointer.parse`. (DESIGN §16)
-/
namespace Jp.Tie
open Jp

theorem pointer_parse_eq (s : Bytes) : Gen.Pointer.parse s = Pointer.parse s := by
  unfold Gen.Pointer.parse Pointer.parse
  rw [validate_eq]
  cases validate s <;> rfl

end Jp.Tie
