import Jp.Gen.Rs.GetBounds
/-
  Jp.Tie.Slice — the `PointerIndex::get` impls regenerated from `src/pointer/slice.rs` equal the hand-written
  model (`Jp.getRange …`, `Jp.getBounds`), for all inputs.
-/
namespace Jp.Tie
open Jp

theorem range_loop_eq (a b : Nat) (ts : List Bytes) (so eo : Option Nat) (idx off : Nat) :
    Gen.Range.get.loop1 a b ts so eo idx off =
      (match rangeLoop a b ts idx off so with
       | (i, o, s, e) => (s, (match e with | some x => some x | none => eo), i, o)) := by
  induction ts generalizing so eo idx off with
  | nil => simp [Gen.Range.get.loop1, rangeLoop]
  | cons t r ih =>
    unfold Gen.Range.get.loop1 rangeLoop
    by_cases hb : idx = b
    · simp [hb]
    · simp [hb, ih]

theorem range_eq (a b : Nat) (p : Bytes) : Gen.Range.get a b p = getRange p a b := by
  unfold Gen.Range.get getRange
  by_cases h : b < a
  · simp [h]
  · simp only [h, if_false, range_loop_eq]
    rcases hl : rangeLoop a b (tokens p) 0 0 none with ⟨i, o, s, e⟩
    simp only
    by_cases hi : i = b
    · cases s <;> simp [hi, sliceChecked]
    · cases s <;> cases e <;> simp [hi, sliceChecked]

theorem range_from_loop_eq (a : Nat) (ts : List Bytes) (idx : Nat) (so : Option Nat) (off : Nat) :
    (Gen.RangeFrom.get.loop1 a ts idx so off).1 =
      (match rangeFromLoop a ts idx off with | some s => some s | none => so) := by
  induction ts generalizing idx so off with
  | nil => simp [Gen.RangeFrom.get.loop1, rangeFromLoop]
  | cons t r ih =>
    unfold Gen.RangeFrom.get.loop1 rangeFromLoop
    by_cases ha : idx = a
    · simp [ha]
    · simp [ha, ih]

theorem range_from_eq (a : Nat) (p : Bytes) : Gen.RangeFrom.get a p = getRangeFrom p a := by
  unfold Gen.RangeFrom.get getRangeFrom
  have h := range_from_loop_eq a (tokens p) 0 none 0
  cases hr : rangeFromLoop a (tokens p) 0 0 <;> rw [hr] at h <;>
    rcases hl : Gen.RangeFrom.get.loop1 a (tokens p) 0 none 0 with ⟨s, o⟩ <;> rw [hl] at h <;>
    simp only at h <;> subst h <;> simp [hl, sliceChecked]

theorem range_to_loop_eq (b : Nat) (ts : List Bytes) (eo : Option Nat) (idx off : Nat) :
    Gen.RangeTo.get.loop1 b ts eo idx off =
      (match rangeToLoop b ts idx off with
       | (i, o, e) => ((match e with | some x => some x | none => eo), i, o)) := by
  induction ts generalizing eo idx off with
  | nil => simp [Gen.RangeTo.get.loop1, rangeToLoop]
  | cons t r ih =>
    unfold Gen.RangeTo.get.loop1 rangeToLoop
    by_cases hb : idx = b
    · simp [hb]
    · simp [hb, ih]

theorem range_to_eq (b : Nat) (p : Bytes) : Gen.RangeTo.get b p = getRangeTo p b := by
  unfold Gen.RangeTo.get getRangeTo
  simp only [range_to_loop_eq]
  rcases hl : rangeToLoop b (tokens p) 0 0 with ⟨i, o, e⟩
  simp only
  by_cases hi : i = b
  · simp [hi, sliceChecked]
  · cases e <;> simp [hi, sliceChecked]

theorem range_incl_loop_eq (a b : Nat) (ts : List Bytes) (idx : Nat) (so : Option Nat) (off : Nat) (eo : Option Nat) :
    (match Gen.RangeInclusive.get.loop1 a b ts idx so off eo with
     | (s, _, e) => (s, e)) =
      (match rangeInclLoop a b ts idx off so with
       | (s, e) => (s, (match e with | some x => some x | none => eo))) := by
  induction ts generalizing idx so off eo with
  | nil => simp [Gen.RangeInclusive.get.loop1, rangeInclLoop]
  | cons t r ih =>
    unfold Gen.RangeInclusive.get.loop1 rangeInclLoop
    by_cases hb : idx = b
    · simp [hb]
    · simp [hb, ih]

theorem range_incl_eq (a b : Nat) (p : Bytes) : Gen.RangeInclusive.get a b p = getRangeIncl p a b := by
  unfold Gen.RangeInclusive.get getRangeIncl
  by_cases h : b < a
  · simp [h]
  · simp only [h, if_false]
    have hl := range_incl_loop_eq a b (tokens p) 0 none 0 none
    rcases hg : Gen.RangeInclusive.get.loop1 a b (tokens p) 0 none 0 none with ⟨s, o, e⟩
    rcases hm : rangeInclLoop a b (tokens p) 0 0 none with ⟨s', e'⟩
    rw [hg, hm] at hl
    simp only [Prod.mk.injEq] at hl
    obtain ⟨rfl, rfl⟩ := hl
    cases s <;> cases e' <;> simp [sliceChecked]

theorem range_to_incl_loop_eq (b : Nat) (ts : List Bytes) (idx off : Nat) (eo : Option Nat) :
    (Gen.RangeToInclusive.get.loop1 b ts idx off eo).2 =
      (match rangeToInclLoop b ts idx off with | some x => some x | none => eo) := by
  induction ts generalizing idx off eo with
  | nil => simp [Gen.RangeToInclusive.get.loop1, rangeToInclLoop]
  | cons t r ih =>
    unfold Gen.RangeToInclusive.get.loop1 rangeToInclLoop
    by_cases hb : idx = b
    · simp [hb]
    · simp [hb, ih]

theorem range_to_incl_eq (b : Nat) (p : Bytes) : Gen.RangeToInclusive.get b p = getRangeToIncl p b := by
  unfold Gen.RangeToInclusive.get getRangeToIncl
  have h := range_to_incl_loop_eq b (tokens p) 0 0 none
  cases hr : rangeToInclLoop b (tokens p) 0 0 <;> rw [hr] at h <;>
    rcases hl : Gen.RangeToInclusive.get.loop1 b (tokens p) 0 0 none with ⟨o, e⟩ <;> rw [hl] at h <;>
    simp only at h <;> subst h <;> simp [hl, sliceChecked]

theorem range_full_eq (p : Bytes) : Gen.RangeFull.get p = getRangeFull p := rfl

theorem checked_add_eq (n : Nat) :
    (if n + 1 ≤ usizeMax then some (n + 1) else none) = checkedSucc n := by
  unfold checkedSucc
  by_cases h : n < usizeMax
  · have : n + 1 ≤ usizeMax := h
    simp [h, this]
  · have : ¬ (n + 1 ≤ usizeMax) := fun h' => h h'
    simp [h, this]

theorem bounds_eq (s e : Bound) (p : Bytes) : Gen.BoundPair.get s e p = getBounds p s e := by
  cases s <;> cases e <;>
    simp only [Gen.BoundPair.get, getBounds, checked_add_eq, range_eq, range_from_eq, range_to_eq,
      range_incl_eq, range_to_incl_eq, range_full_eq] <;>
    (try (cases checkedSucc _ <;> rfl))

end Jp.Tie
