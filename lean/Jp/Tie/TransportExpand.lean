import Jp.Tie.ExpandJson
import Jp.Tie.ExpandToml
import Jp.Props.C06
/-
  Jp.Tie.TransportExpand — C06's expansion rule restated about `assign::json::expand` / `assign::toml::expand` as
  regenerated from the current `src/assign.rs` (DESIGN §16).
-/
namespace Jp.Tie
open Jp Jp.Spec

/-- C06: the extracted `expand` materialises the remaining tokens around the value — `0` and `-` as one-element arrays,
    any other token as a one-member object keyed by the *decoded* token -/
theorem gen_expand_json_spec (p : Bytes) (v : Val) (hp : validPtr p = true) :
    Gen.json.expand p v = expandSpec (tokens p) v := by
  rw [expand_json_eq]; exact C06.expand_eq_spec p v hp

/-- the two separately written copies, as extracted, agree -/
theorem gen_expand_backends_agree (p : Bytes) (v : Val) : Gen.json.expand p v = Gen.toml.expand p v := by
  rw [expand_json_eq, expand_toml_eq]
  -- the hand models of the two copies are textually the same recursion
  induction hn : p.length using Nat.strongRecOn generalizing p v with
  | _ n ih =>
    cases hsb : splitBack p with
    | none => rw [expand_none hsb, Toml.expand_none hsb]
    | some pr =>
      obtain ⟨ptr, tok⟩ := pr
      have hlt : ptr.length < p.length := rsplitOnce_length hsb
      rw [expand_some hsb, Toml.expand_some hsb]
      by_cases ht : tok = [48] ∨ tok = [45]
      · simp only [ht, if_true]; exact ih ptr.length (by omega) ptr _ rfl
      · simp only [ht, if_false]; exact ih ptr.length (by omega) ptr _ rfl

example : Gen.json.expand [47, 48, 47, 97, 126, 49] (.scalar [55]) = .arr [.obj [([97, 47], .scalar [55])]] := by rfl

end Jp.Tie
