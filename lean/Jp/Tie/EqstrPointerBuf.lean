import Jp.Gen.Rs.EqstrPointerBuf
import Jp.Model.Glue
/-
  Jp.Tie.EqstrPointerBuf — `impl PartialEq<PointerBuf> for str`: `eq` regenerated from `src/pointer.rs` compares the two texts — the model's `strEq`. (DESIGN §16)
-/
namespace Jp.Tie
open Jp

theorem cmp_EqstrPointerBuf_eq (a b : Bytes) : Gen.cmp.eq_str_PointerBuf a b = strEq a b := rfl

end Jp.Tie
