import Jp.Gen.Rs.CmpPointerBufRefPointer
import Jp.Model.Glue
/-
  Jp.Tie.CmpPointerBufRefPointer — `impl PartialOrd<&Pointer> for PointerBuf`: `partial_cmp` regenerated from `src/pointer.rs` compares the two texts — the model's `strPartialCmp`. (DESIGN §16)
-/
namespace Jp.Tie
open Jp

theorem cmp_CmpPointerBufRefPointer_eq (a b : Bytes) : Gen.cmp.partial_cmp_PointerBuf_RefPointer a b = strPartialCmp a b := rfl

end Jp.Tie
