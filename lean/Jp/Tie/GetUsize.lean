import Jp.Gen.Rs.GetUsize
import Jp.Model.Slice
/-
  Jp.Tie.GetUsize — `impl PointerIndex for usize` (`pointer.tokens().nth(self)`) regenerated from `src/pointer/slice.rs` is the model's `getToken`. (DESIGN §16)
-/
namespace Jp.Tie
open Jp

theorem get_usize_eq (i : Nat) (p : Bytes) : Gen.Usize.get i p = getToken p i := rfl

/-- no arithmetic on the index: past the last token the answer is `none`, for every index however large -/
theorem get_usize_none (i : Nat) (p : Bytes) (h : (tokens p).length ≤ i) : Gen.Usize.get i p = none := by
  simp [Gen.Usize.get, h]

end Jp.Tie
