import Jp.Gen.Rs.IndexFromStr
/-
  Jp.Tie.IndexFromStr — `impl FromStr for Index` regenerated from `src/index.rs` equals the model's `Index.fromStr`
  (DESIGN §16). Two std calls are mapped by the translator's API table: `s.chars().position(..)` is the byte position
  (`C16.char_index_is_byte_index` proves the char index equals it) and `s.parse::<usize>()` on a digit string is `parseUsize`.
-/
namespace Jp.Tie
open Jp

theorem index_from_str_eq (s : Bytes) : Gen.Index.from_str s = Index.fromStr s := by
  unfold Gen.Index.from_str Index.fromStr
  by_cases h1 : s = [45]
  · simp [h1]
  · simp only [h1, if_false]
    by_cases h2 : s.head? = some 48 ∧ s ≠ [48]
    · have : (s.head? == some 48) = true ∧ s ≠ [48] := by simpa using h2
      simp [h2, this]
    · have : ¬ ((s.head? == some 48) = true ∧ s ≠ [48]) := by simpa using h2
      simp only [h2, this, if_false]
      cases position (fun b => !isDigit b) s with
      | some o => rfl
      | none => simp only []; cases parseUsize s <;> rfl

end Jp.Tie
