import Jp.Gen.Rs.CmpstrPointerBuf
import Jp.Model.Glue
/-
  Jp.Tie.CmpstrPointerBuf — `impl PartialOrd<PointerBuf> for str`: `partial_cmp` regenerated from `src/pointer.rs` compares the two texts — the model's `strPartialCmp`. (DESIGN §16)
-/
namespace Jp.Tie
open Jp

theorem cmp_CmpstrPointerBuf_eq (a b : Bytes) : Gen.cmp.partial_cmp_str_PointerBuf a b = strPartialCmp a b := rfl

end Jp.Tie
