import Jp.Tie.FromEncoded
import Jp.Tie.TokenNew
import Jp.Tie.Decoded
import Jp.Props.C03
import Jp.Props.C19
/-
  Jp.Tie.TransportToken — property theorems restated about the definitions regenerated from the current Rust source
  (`Jp.Gen.*`), obtained by rewriting with the tie theorems (DESIGN §16).
-/
namespace Jp.Tie
open Jp Jp.Spec Jp.C03

/-! ### C03 / C19: tokens -/

theorem gen_from_encoded_ok_iff (e : Bytes) :
    (∃ t, Gen.Token.from_encoded e = .ok t) ↔ validTok e = true := by
  simp only [from_encoded_eq]; exact C03.fromEncoded_ok_iff e

theorem gen_from_encoded_verbatim (e t : Bytes) (h : Gen.Token.from_encoded e = .ok t) : t = e := by
  rw [from_encoded_eq] at h; exact C03.fromEncoded_verbatim e t h

theorem gen_from_encoded_err_truthful (e : Bytes) (k : Nat) (kind : EncKind)
    (h : Gen.Token.from_encoded e = .err ⟨k, kind⟩) :
    ∃ f, firstBad e = some f ∧ (f = k ∨ f + 1 = k) ∧
      (kind = .slash → e[k]? = some 47) ∧
      (kind = .tilde → badTildeAt e k ∨ (1 ≤ k ∧ badTildeAt e (k - 1))) := by
  rw [from_encoded_eq] at h; exact C03.fromEncoded_err_truthful e k kind h

theorem gen_from_encoded_no_panic (e : Bytes) (m : String) : Gen.Token.from_encoded e ≠ .panic m := by
  rw [from_encoded_eq]; exact C03.fromEncoded_no_panic e m

/-- `Token::new` writes `~` as `~0` and `/` as `~1` -/
theorem gen_new_encoded (s : Bytes) : (Gen.Token.new s).bytes = enc s := by
  rw [new_eq]; exact C03.new_encoded s

/-- `decoded(new(s)) = s` on the extracted definitions -/
theorem gen_decoded_new (s : Bytes) : (Gen.Token.decoded (Gen.Token.new s).bytes).bytes = s := by
  rw [new_eq, decoded_eq]; exact C03.decoded_new s

theorem gen_decoded_eq_dec (e : Bytes) (h : validTok e = true) : (Gen.Token.decoded e).bytes = dec e := by
  rw [decoded_eq]; exact C03.decoded_eq_dec e h

/-- C19: `Token::new` builds a buffer only when the text has a `/` or `~` -/
theorem gen_new_fresh_iff (s : Bytes) : (Gen.Token.new s).fresh = true ↔ (47 ∈ s ∨ 126 ∈ s) := by
  rw [new_eq]; exact C03.new_fresh_iff s

/-- C19: `decoded()` builds a buffer only when the token has an escape -/
theorem gen_decoded_fresh_iff (t : Bytes) : (Gen.Token.decoded t).fresh = true ↔ 126 ∈ t := by
  rw [decoded_eq]; exact C03.decoded_fresh_iff t

/-! non-vacuity: concrete evaluations of the extracted definitions -/
example : Gen.Token.from_encoded [126, 126, 48] = .err ⟨1, .tilde⟩ := by decide
example : Gen.Token.new [97, 47, 126] = .owned [97, 126, 49, 126, 48] := by decide

end Jp.Tie
