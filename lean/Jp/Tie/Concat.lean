import Jp.Gen.Rs.Concat
import Jp.Tie.Append
/-
  Jp.Tie.Concat — `Pointer::concat` (`to_buf` + `append`) regenerated from `src/pointer.rs` is the model's `concat`. (DESIGN §16)
-/
namespace Jp.Tie
open Jp

theorem concat_eq (p q : Bytes) : Gen.Pointer.concat p q = concat p q := by
  simp [Gen.Pointer.concat, concat, append_eq]

end Jp.Tie
