import Jp.Gen.Rs.AssignScalarToml
import Jp.Tie.ExpandToml
import Jp.Lemmas.Toml
/-
  Jp.Tie.AssignScalarToml — `assign::toml::assign_scalar` regenerated from `src/assign.rs`: the scalar the reference points at
  is replaced by the expansion of the remaining pointer (current token included) and handed back. (DESIGN §16)
-/
namespace Jp.Tie
open Jp

theorem assign_scalar_toml_eq (doc : Val) (rem : Bytes) (loc : Loc) (dest value : Val) :
    Gen.toml.assign_scalar doc rem (loc, dest) value = (doc.setAt loc (expand rem value), .done (some dest)) := by
  simp [Gen.toml.assign_scalar, expand_toml_eq, toml_expand_eq]

end Jp.Tie
