import Jp.Gen.Rs.ParseErrCompleteOffset
import Jp.Tie.ParseErrSourceOffset
import Jp.Tie.ParseErrPointerOffset
import Jp.Model.Pointer
/-
  Jp.Tie.ParseErrCompleteOffset — `ParseError::complete_offset` regenerated from `src/pointer.rs` is the model's `ParseError.completeOffset`. (DESIGN §16)
-/
namespace Jp.Tie
open Jp

theorem parse_err_complete_offset_eq (e : ParseError) : Gen.ParseError.complete_offset e = e.completeOffset := by
  simp [Gen.ParseError.complete_offset, parse_err_source_offset_eq, parse_err_pointer_offset_eq, ParseError.completeOffset]

end Jp.Tie
