import Jp.Tie.SerializePointer
import Jp.Tie.SerializePointerBuf
import Jp.Tie.DeserializePointerBuf
import Jp.Tie.VisitBorrowedStr
import Jp.Props.C18
/-
  Jp.Tie.TransportSerde — C18 / C02 on the serde impls as regenerated from the current `src/pointer.rs`: serialising hands over exactly the
  text; deserialising that text (owned door, borrowed door) gives back an equal pointer; anything that is not a valid pointer is refused
  (DESIGN §16).  The carrier is abstracted to "a deserializer that holds one string": which serde entry point the impl asks the
  deserializer for (`deserialize_string`, `deserialize_str`, `deserialize_any`) is outside the model and stays with the correspondence.
-/
namespace Jp.Tie
open Jp Jp.Spec

/-- C18: serialize then deserialize, through the extracted impls, is the identity on valid pointers -/
theorem gen_serde_roundtrip (p : Bytes) (h : validPtr p = true) :
    Gen.PointerBuf.deserialize (Gen.PointerBuf.serialize p ()) = .ok p ∧
    Gen.PointerVisitor.visit_borrowed_str () (Gen.Pointer.serialize p ()) = .ok p := by
  rw [serialize_pointer_buf_eq, serialize_pointer_eq, deserialize_pointer_buf_eq, visit_borrowed_str_eq]
  exact C18.deserialize_roundtrip p h

/-- C02 / C18: the extracted serde doors refuse everything that is not a valid pointer -/
theorem gen_serde_refuses (s : Bytes) (h : validPtr s = false) :
    Gen.PointerBuf.deserialize s = .err .de ∧ Gen.PointerVisitor.visit_borrowed_str () s = .err .de := by
  rw [deserialize_pointer_buf_eq, visit_borrowed_str_eq]
  exact C18.deserialize_refuses s h

example : Gen.PointerBuf.deserialize [47, 126] = .err .de := by decide
example : Gen.PointerBuf.deserialize [47, 126, 48] = .ok [47, 126, 48] := by decide

end Jp.Tie
