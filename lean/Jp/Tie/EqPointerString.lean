import Jp.Gen.Rs.EqPointerString
import Jp.Model.Glue
/-
  Jp.Tie.EqPointerString — `impl PartialEq<String> for Pointer`: `eq` regenerated from `src/pointer.rs` compares the two texts — the model's `strEq`. (DESIGN §16)
-/
namespace Jp.Tie
open Jp

theorem cmp_EqPointerString_eq (a b : Bytes) : Gen.cmp.eq_Pointer_String a b = strEq a b := rfl

end Jp.Tie
