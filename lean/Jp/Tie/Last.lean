import Jp.Gen.Rs.Last
import Jp.Tie.Back
/-
  Jp.Tie.Last — `Pointer::last` regenerated from `src/pointer.rs` is `back`. (DESIGN §16)
-/
namespace Jp.Tie
open Jp

theorem last_eq (p : Bytes) : Gen.Pointer.last p = back p := by
  simp [Gen.Pointer.last, back_eq]

end Jp.Tie
