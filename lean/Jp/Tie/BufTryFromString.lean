import Jp.Gen.Rs.BufTryFromString
import Jp.Tie.Validate
/-
  Jp.Tie.BufTryFromString — `TryFrom<String> for PointerBuf` regenerated from `src/pointer.rs` is the model's door
  `PointerBuf.tryFromString`. (DESIGN §16)
-/
namespace Jp.Tie
open Jp

theorem buf_try_from_string_eq (s : Bytes) : Gen.PointerBuf.try_from_string s = PointerBuf.tryFromString s := by
  unfold Gen.PointerBuf.try_from_string PointerBuf.tryFromString
  rw [validate_eq]
  cases validate s <;> rfl

end Jp.Tie
