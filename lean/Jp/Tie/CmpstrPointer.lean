import Jp.Gen.Rs.CmpstrPointer
import Jp.Model.Glue
/-
  Jp.Tie.CmpstrPointer — `impl PartialOrd<Pointer> for str`: `partial_cmp` regenerated from `src/pointer.rs` compares the two texts — the model's `strPartialCmp`. (DESIGN §16)
-/
namespace Jp.Tie
open Jp

theorem cmp_CmpstrPointer_eq (a b : Bytes) : Gen.cmp.partial_cmp_str_Pointer a b = strPartialCmp a b := rfl

end Jp.Tie
