import Jp.Tie.ValidateBytes
import Jp.Props.C02
import Jp.Props.C14
/-
  Jp.Tie.TransportValidate — property theorems restated about the definitions regenerated from the current Rust source
  (`Jp.Gen.*`), obtained by rewriting with the tie theorems (DESIGN §16).
-/
namespace Jp.Tie
open Jp Jp.Spec

/-! ### C02 / C14: `validate_bytes` -/

/-- C02: the extracted `validate_bytes` accepts a non-empty string iff it is RFC 6901 pointer text -/
theorem gen_validate_ok_iff (s : Bytes) (hne : s ≠ []) :
    Gen.validate_bytes s 0 = .ok () ↔ validPtr s = true := by
  rw [validate_bytes_eq s hne, ← C02.validate_ok_iff]
  simp [validate, hne]

theorem gen_validate_no_panic (s : Bytes) (hne : s ≠ []) (m : String) : Gen.validate_bytes s 0 ≠ .panic m := by
  rw [validate_bytes_eq s hne]
  have := C02.validate_no_panic s m
  simpa [validate, hne] using this

/-- C14: the extracted `validate_bytes` reports `NoLeadingSlash` exactly for a missing leading `/` -/
theorem gen_no_leading_slash_iff (s : Bytes) (hne : s ≠ []) :
    Gen.validate_bytes s 0 = .err .noLeadingSlash ↔ s.head? ≠ some 47 := by
  rw [validate_bytes_eq s hne]
  have := C14.no_leading_slash_iff s
  simpa [validate, hne] using this

/-! non-vacuity: concrete evaluations of the extracted definitions -/
example : Gen.validate_bytes [47, 126, 48] 0 = .ok () := by decide
example : Gen.validate_bytes [47, 126] 0 = .err (.invalidEncoding 0 1 .tilde) := by decide

end Jp.Tie
