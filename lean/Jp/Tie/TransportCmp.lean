import Jp.Tie.EqPointerRefstr
import Jp.Tie.EqRefPointerString
import Jp.Tie.EqPointerstr
import Jp.Tie.EqRefstrPointer
import Jp.Tie.EqStringPointer
import Jp.Tie.EqstrPointer
import Jp.Tie.EqPointerString
import Jp.Tie.EqPointerPointerBuf
import Jp.Tie.EqPointerBufPointer
import Jp.Tie.EqStringPointerBuf
import Jp.Tie.EqPointerBufString
import Jp.Tie.EqstrPointerBuf
import Jp.Tie.EqRefstrPointerBuf
import Jp.Tie.EqRefPointerPointerBuf
import Jp.Tie.EqPointerBufRefPointer
import Jp.Tie.EqPointerBufRefstr
import Jp.Tie.EqPointerBufstr
import Jp.Tie.CmpPointerPointerBuf
import Jp.Tie.CmpPointerBufPointer
import Jp.Tie.CmpPointerBufRefPointer
import Jp.Tie.CmpStringPointer
import Jp.Tie.CmpRefPointerString
import Jp.Tie.CmpStringPointerBuf
import Jp.Tie.CmpstrPointer
import Jp.Tie.CmpstrPointerBuf
import Jp.Tie.CmpRefstrPointerBuf
import Jp.Tie.CmpRefstrPointer
import Jp.Tie.CmpRefPointerRefstr
import Jp.Tie.CmpPointerString
import Jp.Tie.CmpPointerBufRefstr
import Jp.Tie.CmpRefPointerPointerBuf
import Jp.Tie.CmpPointerBufString
import Jp.Props.C17
/-
  Jp.Tie.TransportCmp — C17 on the comparison impls as regenerated from the current `src/pointer.rs`: each of the 17 hand-written
  `PartialEq` impls between `Pointer`, `&Pointer`, `PointerBuf`, `str`, `&str`, `String` is equality of the texts, each of the 15
  `PartialOrd` impls is the lexicographic byte order (`str`'s order), so they all coincide with one another (DESIGN §16).
-/
namespace Jp.Tie
open Jp

/-- every extracted `eq` decides equality of the two texts -/
theorem gen_eq_impls_are_text_eq (a b : Bytes) :
    Gen.cmp.eq_Pointer_Refstr a b = decide (a = b) ∧
    Gen.cmp.eq_RefPointer_String a b = decide (a = b) ∧
    Gen.cmp.eq_Pointer_str a b = decide (a = b) ∧
    Gen.cmp.eq_Refstr_Pointer a b = decide (a = b) ∧
    Gen.cmp.eq_String_Pointer a b = decide (a = b) ∧
    Gen.cmp.eq_str_Pointer a b = decide (a = b) ∧
    Gen.cmp.eq_Pointer_String a b = decide (a = b) ∧
    Gen.cmp.eq_Pointer_PointerBuf a b = decide (a = b) ∧
    Gen.cmp.eq_PointerBuf_Pointer a b = decide (a = b) ∧
    Gen.cmp.eq_String_PointerBuf a b = decide (a = b) ∧
    Gen.cmp.eq_PointerBuf_String a b = decide (a = b) ∧
    Gen.cmp.eq_str_PointerBuf a b = decide (a = b) ∧
    Gen.cmp.eq_Refstr_PointerBuf a b = decide (a = b) ∧
    Gen.cmp.eq_RefPointer_PointerBuf a b = decide (a = b) ∧
    Gen.cmp.eq_PointerBuf_RefPointer a b = decide (a = b) ∧
    Gen.cmp.eq_PointerBuf_Refstr a b = decide (a = b) ∧
    Gen.cmp.eq_PointerBuf_str a b = decide (a = b) := by
  refine ⟨?_, ?_, ?_, ?_, ?_, ?_, ?_, ?_, ?_, ?_, ?_, ?_, ?_, ?_, ?_, ?_, ?_⟩ <;> (simp only [cmp_EqPointerRefstr_eq, cmp_EqRefPointerString_eq, cmp_EqPointerstr_eq, cmp_EqRefstrPointer_eq, cmp_EqStringPointer_eq, cmp_EqstrPointer_eq, cmp_EqPointerString_eq, cmp_EqPointerPointerBuf_eq, cmp_EqPointerBufPointer_eq, cmp_EqStringPointerBuf_eq, cmp_EqPointerBufString_eq, cmp_EqstrPointerBuf_eq, cmp_EqRefstrPointerBuf_eq, cmp_EqRefPointerPointerBuf_eq, cmp_EqPointerBufRefPointer_eq, cmp_EqPointerBufRefstr_eq, cmp_EqPointerBufstr_eq, strEq]; by_cases hab : a = b <;> simp [hab])

/-- every extracted `partial_cmp` is the lexicographic order of the texts, and never `None` -/
theorem gen_ord_impls_are_lexCmp (a b : Bytes) :
    Gen.cmp.partial_cmp_Pointer_PointerBuf a b = some (lexCmp a b) ∧
    Gen.cmp.partial_cmp_PointerBuf_Pointer a b = some (lexCmp a b) ∧
    Gen.cmp.partial_cmp_PointerBuf_RefPointer a b = some (lexCmp a b) ∧
    Gen.cmp.partial_cmp_String_Pointer a b = some (lexCmp a b) ∧
    Gen.cmp.partial_cmp_RefPointer_String a b = some (lexCmp a b) ∧
    Gen.cmp.partial_cmp_String_PointerBuf a b = some (lexCmp a b) ∧
    Gen.cmp.partial_cmp_str_Pointer a b = some (lexCmp a b) ∧
    Gen.cmp.partial_cmp_str_PointerBuf a b = some (lexCmp a b) ∧
    Gen.cmp.partial_cmp_Refstr_PointerBuf a b = some (lexCmp a b) ∧
    Gen.cmp.partial_cmp_Refstr_Pointer a b = some (lexCmp a b) ∧
    Gen.cmp.partial_cmp_RefPointer_Refstr a b = some (lexCmp a b) ∧
    Gen.cmp.partial_cmp_Pointer_String a b = some (lexCmp a b) ∧
    Gen.cmp.partial_cmp_PointerBuf_Refstr a b = some (lexCmp a b) ∧
    Gen.cmp.partial_cmp_RefPointer_PointerBuf a b = some (lexCmp a b) ∧
    Gen.cmp.partial_cmp_PointerBuf_String a b = some (lexCmp a b) := by
  refine ⟨?_, ?_, ?_, ?_, ?_, ?_, ?_, ?_, ?_, ?_, ?_, ?_, ?_, ?_, ?_⟩ <;> simp [strPartialCmp, cmp_CmpPointerPointerBuf_eq, cmp_CmpPointerBufPointer_eq, cmp_CmpPointerBufRefPointer_eq, cmp_CmpStringPointer_eq, cmp_CmpRefPointerString_eq, cmp_CmpStringPointerBuf_eq, cmp_CmpstrPointer_eq, cmp_CmpstrPointerBuf_eq, cmp_CmpRefstrPointerBuf_eq, cmp_CmpRefstrPointer_eq, cmp_CmpRefPointerRefstr_eq, cmp_CmpPointerString_eq, cmp_CmpPointerBufRefstr_eq, cmp_CmpRefPointerPointerBuf_eq, cmp_CmpPointerBufString_eq]

/-- equality and order agree: an extracted `eq` is true exactly when an extracted `partial_cmp` says `Equal` -/
theorem gen_eq_iff_ord_eq (a b : Bytes) :
    Gen.cmp.eq_Pointer_str a b = true ↔ Gen.cmp.partial_cmp_Pointer_String a b = some .eq := by
  rw [cmp_EqPointerstr_eq, cmp_CmpPointerString_eq]; exact C17.eq_iff_ord_eq a b

example : Gen.cmp.partial_cmp_str_Pointer [47, 97] [47, 97, 47] = some .lt := by decide

end Jp.Tie
