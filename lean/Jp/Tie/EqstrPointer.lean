import Jp.Gen.Rs.EqstrPointer
import Jp.Model.Glue
/-
  Jp.Tie.EqstrPointer — `impl PartialEq<Pointer> for str`: `eq` regenerated from `src/pointer.rs` compares the two texts — the model's `strEq`. (DESIGN §16)
-/
namespace Jp.Tie
open Jp

theorem cmp_EqstrPointer_eq (a b : Bytes) : Gen.cmp.eq_str_Pointer a b = strEq a b := rfl

end Jp.Tie
