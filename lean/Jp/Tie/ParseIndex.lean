import Jp.Gen.Rs.ParseIndex
import Jp.Tie.ForLen
/-
  Jp.Tie.ParseIndex — the `parse_index` helper of `src/resolve.rs`, regenerated, equals the model's `parseIndex`.
-/
namespace Jp.Tie
open Jp

theorem parse_index_eq (token : Bytes) (n position offset : Nat) :
    Gen.resolve.parse_index token n position offset = parseIndex token n position offset := by
  unfold Gen.resolve.parse_index parseIndex
  simp only [for_len_eq]
  cases Token.toIndex token with
  | err e => rfl
  | panic m => rfl
  | ok index => simp only []; cases Index.forLen index n <;> rfl

end Jp.Tie
