import Jp.Gen.Rs.ResolveErrIsUnreachable
import Jp.Model.Assign
/-
  Jp.Tie.ResolveErrIsUnreachable — `resolve::Error::is_unreachable` (`matches!(self, …)`) regenerated from `src/resolve.rs` is true for exactly its own variant. (DESIGN §16)
-/
namespace Jp.Tie
open Jp

theorem resolveErrIsUnreachable_iff (e : ResolveErr) : Gen.resolve.Error.is_unreachable e = (match e with | .unreachable _ _ => true | _ => false) := by
  cases e <;> rfl

end Jp.Tie
