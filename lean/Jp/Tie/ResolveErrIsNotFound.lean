import Jp.Gen.Rs.ResolveErrIsNotFound
import Jp.Model.Assign
/-
  Jp.Tie.ResolveErrIsNotFound — `resolve::Error::is_not_found` (`matches!(self, …)`) regenerated from `src/resolve.rs` is true for exactly its own variant. (DESIGN §16)
-/
namespace Jp.Tie
open Jp

theorem resolveErrIsNotFound_iff (e : ResolveErr) : Gen.resolve.Error.is_not_found e = (match e with | .notFound _ _ => true | _ => false) := by
  cases e <;> rfl

end Jp.Tie
