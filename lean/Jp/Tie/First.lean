import Jp.Gen.Rs.First
import Jp.Tie.Front
/-
  Jp.Tie.First — `Pointer::first` regenerated from `src/pointer.rs` is `front`. (DESIGN §16)
-/
namespace Jp.Tie
open Jp

theorem first_eq (p : Bytes) : Gen.Pointer.first p = front p := by
  simp [Gen.Pointer.first, front_eq]

end Jp.Tie
