import Jp.Gen.Rs.EqPointerPointerBuf
import Jp.Model.Glue
/-
  Jp.Tie.EqPointerPointerBuf — `impl PartialEq<PointerBuf> for Pointer`: `eq` regenerated from `src/pointer.rs` compares the two texts — the model's `strEq`. (DESIGN §16)
-/
namespace Jp.Tie
open Jp

theorem cmp_EqPointerPointerBuf_eq (a b : Bytes) : Gen.cmp.eq_Pointer_PointerBuf a b = strEq a b := rfl

end Jp.Tie
