import Jp.Gen.Rs.BufTryFromStr
import Jp.Tie.PointerParse
/-
  Jp.Tie.BufTryFromStr — `TryFrom<&str> for PointerBuf` (`Pointer::parse(value).map(Pointer::to_buf)`) regenerated from
  `src/pointer.rs` is the model's door `PointerBuf.tryFromStr`. (DESIGN §16)
-/
namespace Jp.Tie
open Jp

theorem buf_try_from_str_eq (s : Bytes) : Gen.PointerBuf.try_from_str s = PointerBuf.tryFromStr s := by
  unfold Gen.PointerBuf.try_from_str PointerBuf.tryFromStr
  rw [pointer_parse_eq]
  cases Pointer.parse s <;> rfl

end Jp.Tie
