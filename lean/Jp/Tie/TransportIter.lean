import Jp.Tie.PointerTokens
import Jp.Tie.TokensNext
import Jp.Tie.ComponentsFrom
import Jp.Tie.ComponentsNext
import Jp.Props.C04
/-
  Jp.Tie.TransportIter — C04 on the iterators as regenerated from the current source: draining `pointer.tokens()` by repeated calls of
  the extracted `Tokens::next` yields the token list, for every byte string; the extracted `Components::next` yields `Root` first and
  then the tokens; both are fused (DESIGN §16).
-/
namespace Jp.Tie
open Jp Jp.Spec

/-- the extracted `next` functions, as step functions on the state -/
def genTokensNext (s : Split) : Option Bytes × Split := Gen.Tokens.next s
def genComponentsNext (c : Components) : Option Component × Components := Gen.Components.next c.sentRoot c.tokens

theorem genTokensNext_eq : genTokensNext = Tokens.next := funext tokens_next_eq
theorem genComponentsNext_eq : genComponentsNext = Components.next := funext components_next_eq

/-- C04: collecting the extracted token iterator yields the token list, for every byte string -/
theorem gen_tokens_iter_eq (p : Bytes) : drain genTokensNext (p.length + 2) (Gen.Pointer.tokens_iter p) = tokens p := by
  rw [genTokensNext_eq, pointer_tokens_iter_eq]; exact C04.tokens_iter_eq p

/-- C04: collecting the extracted component iterator yields `Root` followed by the tokens -/
theorem gen_components_iter_eq (p : Bytes) :
    drain genComponentsNext (p.length + 3) (Gen.Components.from_pointer p) = components p := by
  rw [genComponentsNext_eq, components_from_eq]; exact C04.components_iter_eq p

/-- C04: once the extracted token iterator has returned `None` it returns `None` at every later call -/
theorem gen_tokens_iter_fused (p : Bytes) (n : Nat)
    (h : (genTokensNext (advance genTokensNext n (Gen.Pointer.tokens_iter p))).1 = none) :
    ∀ m, (genTokensNext (advance genTokensNext (n + m) (Gen.Pointer.tokens_iter p))).1 = none := by
  rw [genTokensNext_eq, pointer_tokens_iter_eq] at h ⊢
  exact (C04.tokens_iter_fused p n).2 h

example : drain genComponentsNext 5 (Gen.Components.from_pointer [47, 97]) = [.root, .token [97]] := by decide

end Jp.Tie
