import Jp.Gen.Rs.CmpRefstrPointer
import Jp.Model.Glue
/-
  Jp.Tie.CmpRefstrPointer — `impl PartialOrd<Pointer> for &str`: `partial_cmp` regenerated from `src/pointer.rs` compares the two texts — the model's `strPartialCmp`. (DESIGN §16)
-/
namespace Jp.Tie
open Jp

theorem cmp_CmpRefstrPointer_eq (a b : Bytes) : Gen.cmp.partial_cmp_Refstr_Pointer a b = strPartialCmp a b := rfl

end Jp.Tie
