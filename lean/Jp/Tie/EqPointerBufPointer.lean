import Jp.Gen.Rs.EqPointerBufPointer
import Jp.Model.Glue
/-
  Jp.Tie.EqPointerBufPointer — `impl PartialEq<Pointer> for PointerBuf`: `eq` regenerated from `src/pointer.rs` compares the two texts — the model's `strEq`. (DESIGN §16)
-/
namespace Jp.Tie
open Jp

theorem cmp_EqPointerBufPointer_eq (a b : Bytes) : Gen.cmp.eq_PointerBuf_Pointer a b = strEq a b := rfl

end Jp.Tie
