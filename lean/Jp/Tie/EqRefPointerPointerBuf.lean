import Jp.Gen.Rs.EqRefPointerPointerBuf
import Jp.Model.Glue
/-
  Jp.Tie.EqRefPointerPointerBuf — `impl PartialEq<PointerBuf> for &Pointer`: `eq` regenerated from `src/pointer.rs` compares the two texts — the model's `strEq`. (DESIGN §16)
-/
namespace Jp.Tie
open Jp

theorem cmp_EqRefPointerPointerBuf_eq (a b : Bytes) : Gen.cmp.eq_RefPointer_PointerBuf a b = strEq a b := rfl

end Jp.Tie
