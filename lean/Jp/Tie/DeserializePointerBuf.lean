import Jp.Gen.Rs.DeserializePointerBuf
import Jp.Tie.BufTryFromString
/-
  Jp.Tie.DeserializePointerBuf — `Deserialize for PointerBuf` regenerated from `src/pointer.rs` (`String::deserialize(deserializer)?` — the
  carrier's string — then `PointerBuf::try_from(s).map_err(custom)`) is the model's door `PointerBuf.deserialize`. (DESIGN §16)
-/
namespace Jp.Tie
open Jp

theorem deserialize_pointer_buf_eq (s : Bytes) : Gen.PointerBuf.deserialize s = PointerBuf.deserialize s := by
  unfold Gen.PointerBuf.deserialize PointerBuf.deserialize
  simp only [buf_try_from_string_eq]
  cases PointerBuf.tryFromString s <;> rfl

end Jp.Tie
