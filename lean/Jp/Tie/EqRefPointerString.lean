import Jp.Gen.Rs.EqRefPointerString
import Jp.Model.Glue
/-
  Jp.Tie.EqRefPointerString — `impl PartialEq<String> for &Pointer`: `eq` regenerated from `src/pointer.rs` compares the two texts — the model's `strEq`. (DESIGN §16)
-/
namespace Jp.Tie
open Jp

theorem cmp_EqRefPointerString_eq (a b : Bytes) : Gen.cmp.eq_RefPointer_String a b = strEq a b := rfl

end Jp.Tie
