import Jp.Tie.ResolveJson
import Jp.Tie.ResolveMutJson
import Jp.Tie.ResolveToml
import Jp.Tie.ResolveMutToml
import Jp.Props.C05
import Jp.Props.C09
import Jp.Props.C15
/-
  Jp.Tie.TransportResolve — C05, C09 and C15 restated about the four walks regenerated from the current
  `src/resolve.rs` (`Jp.Gen.json.resolve`, `json.resolve_mut`, `toml.resolve`, `toml.resolve_mut`), DESIGN §16.
  For a valid pointer the model never panics, so the "equal or both panic" tie becomes plain equality.
-/
namespace Jp.Tie
open Jp Jp.Spec

theorem gen_resolve_json (D : Val) (p : Bytes) (hp : validPtr p = true) : Gen.json.resolve D p = resolve D p := by
  rcases resolve_json_eq D p with h | ⟨_, h2⟩
  · exact h
  · exfalso
    cases hm : resolve D p with
    | panic m => exact C05.resolve_no_panic D p hp m hm
    | ok r => rw [hm] at h2; simp [Res.isPanic] at h2
    | err e => rw [hm] at h2; simp [Res.isPanic] at h2

theorem gen_resolve_mut_json (D : Val) (p : Bytes) (hp : validPtr p = true) : Gen.json.resolve_mut D p = resolve D p := by
  rcases resolve_mut_json_eq D p with h | ⟨_, h2⟩
  · rw [h, C09.resolveMut_eq_resolve]
  · exfalso
    rw [C09.resolveMut_eq_resolve] at h2
    cases hm : resolve D p with
    | panic m => exact C05.resolve_no_panic D p hp m hm
    | ok r => rw [hm] at h2; simp [Res.isPanic] at h2
    | err e => rw [hm] at h2; simp [Res.isPanic] at h2

theorem gen_resolve_toml (D : Val) (p : Bytes) (hp : validPtr p = true) : Gen.toml.resolve D p = resolve D p := by
  rcases resolve_toml_eq D p with h | ⟨_, h2⟩
  · rw [h, C09.toml_resolve_eq]
  · exfalso
    rw [C09.toml_resolve_eq] at h2
    cases hm : resolve D p with
    | panic m => exact C05.resolve_no_panic D p hp m hm
    | ok r => rw [hm] at h2; simp [Res.isPanic] at h2
    | err e => rw [hm] at h2; simp [Res.isPanic] at h2

theorem gen_resolve_mut_toml (D : Val) (p : Bytes) (hp : validPtr p = true) : Gen.toml.resolve_mut D p = resolve D p := by
  rcases resolve_mut_toml_eq D p with h | ⟨_, h2⟩
  · rw [h, C09.toml_resolveMut_eq, C09.resolveMut_eq_resolve]
  · exfalso
    rw [C09.toml_resolveMut_eq, C09.resolveMut_eq_resolve] at h2
    cases hm : resolve D p with
    | panic m => exact C05.resolve_no_panic D p hp m hm
    | ok r => rw [hm] at h2; simp [Res.isPanic] at h2
    | err e => rw [hm] at h2; simp [Res.isPanic] at h2

/-- C09: the four separately written walks of the crate, as extracted from the source, agree on every document and
    valid pointer -/
theorem gen_four_walks_agree (D : Val) (p : Bytes) (hp : validPtr p = true) :
    Gen.json.resolve D p = Gen.toml.resolve D p ∧ Gen.json.resolve_mut D p = Gen.json.resolve D p ∧
      Gen.toml.resolve_mut D p = Gen.toml.resolve D p := by
  rw [gen_resolve_json D p hp, gen_resolve_toml D p hp, gen_resolve_mut_json D p hp, gen_resolve_mut_toml D p hp]
  exact ⟨rfl, rfl, rfl⟩

/-- C05: the extracted `resolve` is RFC 6901 evaluation -/
theorem gen_resolve_eq_walk (D : Val) (p : Bytes) (hp : validPtr p = true) :
    C05.absR (Gen.json.resolve D p) = walk D (tokens p) := by
  rw [gen_resolve_json D p hp]; exact C05.resolve_eq_walk D p hp

/-- C05: it returns the very node at the returned location -/
theorem gen_resolve_returns_node (D : Val) (p : Bytes) (l : Loc) (n : Val) (hp : validPtr p = true)
    (h : Gen.json.resolve D p = .ok (l, n)) : D.at l = some n := by
  rw [gen_resolve_json D p hp] at h; exact C05.resolve_returns_node D p l n hp h

/-- C05: every node is addressable through the extracted `resolve` by the pointer spelled from its path -/
theorem gen_every_node_addressable (D : Val) (path : Loc) (n : Val) (hfit : C05.PathFits path)
    (h : D.at path = some n) :
    Gen.json.resolve D (fromTokens (path.map C05.spell)) = .ok (path, n) := by
  obtain ⟨hv, hr⟩ := C05.every_node_addressable D path n hfit h
  rw [gen_resolve_json D _ hv]; exact hr

theorem gen_resolve_no_panic (D : Val) (p : Bytes) (hp : validPtr p = true) (m : String) :
    Gen.json.resolve D p ≠ .panic m := by
  rw [gen_resolve_json D p hp]; exact C05.resolve_no_panic D p hp m

example : Gen.json.resolve (.obj [([97], .arr [.scalar [49], .scalar [50]])]) [47, 97, 47, 49]
    = .ok ([.key [97], .idx 1], .scalar [50]) := by rfl
example : Gen.toml.resolve_mut (.arr []) [47, 48] = .err (.outOfBounds 0 0 ⟨0, 0⟩) := by rfl

end Jp.Tie
