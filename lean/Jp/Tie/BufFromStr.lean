import Jp.Gen.Rs.BufFromStr
import Jp.Tie.BufTryFromStr
/-
  Jp.Tie.BufFromStr — `FromStr for PointerBuf` (`Self::try_from(s)`) regenerated from `src/pointer.rs` is the model's door
  `PointerBuf.fromStr`. (DESIGN §16)
-/
namespace Jp.Tie
open Jp

theorem buf_from_str_eq (s : Bytes) : Gen.PointerBuf.from_str s = PointerBuf.fromStr s := by
  simp [Gen.PointerBuf.from_str, PointerBuf.fromStr, buf_try_from_str_eq]

end Jp.Tie
