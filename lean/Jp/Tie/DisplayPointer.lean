import Jp.Gen.Rs.DisplayPointer
/-
  Jp.Tie.DisplayPointer — `Display for Pointer` regenerated from `src/pointer.rs` (`self.0.fmt(f)`) writes the pointer's text unchanged. (DESIGN §16)
-/
namespace Jp.Tie
open Jp

theorem display_pointer_eq (p : Bytes) : Gen.Pointer.display p () = p := rfl

end Jp.Tie
