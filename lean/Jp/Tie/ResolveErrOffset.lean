import Jp.Gen.Rs.ResolveErrOffset
import Jp.Model.Assign
/-
  Jp.Tie.ResolveErrOffset — `resolve::Error::offset` regenerated from the source (an or-pattern over every variant) is the model's
  accessor `ResolveErr.offset`. (DESIGN §16)
-/
namespace Jp.Tie
open Jp

theorem resolve_err_offset_eq (e : ResolveErr) : Gen.resolve.Error.offset e = e.offset := by
  cases e <;> rfl

end Jp.Tie
