import Jp.Gen.Rs.AssignErrIsOutOfBounds
import Jp.Model.Assign
/-
  Jp.Tie.AssignErrIsOutOfBounds — `assign::Error::is_out_of_bounds` (`matches!(self, …)`) regenerated from `src/assign.rs` is true for exactly its own variant. (DESIGN §16)
-/
namespace Jp.Tie
open Jp

theorem assignErrIsOutOfBounds_iff (e : AssignErr) : Gen.assign.Error.is_out_of_bounds e = (match e with | .outOfBounds _ _ _ => true | _ => false) := by
  cases e <;> rfl

end Jp.Tie
