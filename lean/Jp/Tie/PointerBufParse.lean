import Jp.Gen.Rs.PointerBufParse
import Jp.Tie.Validate
/-
  Jp.Tie.PointerBufParse — `PointerBuf::parse` regenerated from `src/pointer.rs` (on error: `err.into_report(s)`, the error with the
  original string) is the model's door `PointerBuf.parse`. (DESIGN §16)
-/
namespace Jp.Tie
open Jp

theorem pointer_buf_parse_eq (s : Bytes) : Gen.PointerBuf.parse s = PointerBuf.parse s := by
  unfold Gen.PointerBuf.parse PointerBuf.parse
  rw [validate_eq]
  cases validate s <;> rfl

end Jp.Tie
