import Jp.Gen.Rs.TokensNext
/-
  Jp.Tie.TokensNext — `<Tokens as Iterator>::next` regenerated from `src/token.rs` (`self.inner.next().map(from_encoded_unchecked)`;
  the `&mut self` is the state returned next to the item) is the model's `Tokens.next`. (DESIGN §16)
-/
namespace Jp.Tie
open Jp

theorem tokens_next_eq (s : Split) : Gen.Tokens.next s = Tokens.next s := by
  unfold Gen.Tokens.next Tokens.next
  cases h : Split.next s with
  | mk it s' => cases it <;> rfl

end Jp.Tie
