import Jp.Gen.Rs.CmpStringPointer
import Jp.Model.Glue
/-
  Jp.Tie.CmpStringPointer — `impl PartialOrd<Pointer> for String`: `partial_cmp` regenerated from `src/pointer.rs` compares the two texts — the model's `strPartialCmp`. (DESIGN §16)
-/
namespace Jp.Tie
open Jp

theorem cmp_CmpStringPointer_eq (a b : Bytes) : Gen.cmp.partial_cmp_String_Pointer a b = strPartialCmp a b := rfl

end Jp.Tie
