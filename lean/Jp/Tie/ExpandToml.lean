import Jp.Gen.Rs.ExpandToml
import Jp.Tie.SplitBack
import Jp.Lemmas.Toml
/-
  Jp.Tie.ExpandToml — `assign::toml::expand` regenerated from `src/assign.rs` (a fuelled `while let` over `split_back`)
  equals the model's `Toml.expand` (well-founded recursion on the remaining pointer). (DESIGN §16)
-/
namespace Jp.Tie
open Jp

theorem expand_toml_loop (n : Nat) : ∀ (rem : Bytes) (v : Val) (fuel : Nat), rem.length = n → rem.length < fuel →
    ∃ r, Gen.toml.expand.loop1 fuel rem v = .done (r, Toml.expand rem v) := by
  induction n using Nat.strongRecOn with
  | _ n ih =>
    intro rem v fuel hn hf
    cases fuel with
    | zero => omega
    | succ f =>
      unfold Gen.toml.expand.loop1
      simp only [split_back_eq]
      cases hsb : splitBack rem with
      | none => rw [Toml.expand_none hsb]; exact ⟨rem, rfl⟩
      | some pr =>
        obtain ⟨ptr, tok⟩ := pr
        have hlt : ptr.length < rem.length := rsplitOnce_length hsb
        rw [Toml.expand_some hsb]
        simp only []
        by_cases ht : tok = [48] ∨ tok = [45]
        · simp only [ht, if_true]
          exact ih ptr.length (by omega) ptr _ f rfl (by omega)
        · simp only [ht, if_false, Gen.insertKey, lookup, Option.isSome_none, Bool.false_eq_true, List.nil_append]
          exact ih ptr.length (by omega) ptr _ f rfl (by omega)

theorem expand_toml_eq (rem : Bytes) (v : Val) : Gen.toml.expand rem v = Toml.expand rem v := by
  obtain ⟨r, h⟩ := expand_toml_loop rem.length rem v (rem.length + 1) rfl (by omega)
  simp [Gen.toml.expand, h]

end Jp.Tie
