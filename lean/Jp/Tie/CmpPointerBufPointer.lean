import Jp.Gen.Rs.CmpPointerBufPointer
import Jp.Model.Glue
/-
  Jp.Tie.CmpPointerBufPointer — `impl PartialOrd<Pointer> for PointerBuf`: `partial_cmp` regenerated from `src/pointer.rs` compares the two texts — the model's `strPartialCmp`. (DESIGN §16)
-/
namespace Jp.Tie
open Jp

theorem cmp_CmpPointerBufPointer_eq (a b : Bytes) : Gen.cmp.partial_cmp_PointerBuf_Pointer a b = strPartialCmp a b := rfl

end Jp.Tie
