import Jp.Gen.Rs.FromEncoded
import Jp.Gen.Rs.TokenNew
import Jp.Gen.Rs.Decoded
/-
  Jp.Tie.Token — the definitions regenerated from `src/token.rs` equal the hand-written model, for all inputs.
-/
namespace Jp.Tie
open Jp

/-- the regenerated scanner loop and the model's loop agree step by step -/
theorem from_encoded_loop_eq (s : Bytes) (off : Nat) (esc : Bool) :
    (match Gen.Token.from_encoded.loop1 s off esc with
     | .ret r => (match r with | .err e => fromEncodedLoop s off esc = .err e | _ => False)
     | .done e => fromEncodedLoop s off esc = .ok e) := by
  induction s generalizing off esc with
  | nil => simp [Gen.Token.from_encoded.loop1, fromEncodedLoop]
  | cons b r ih =>
    unfold Gen.Token.from_encoded.loop1 fromEncodedLoop
    by_cases h47 : b = 47
    · simp [h47]
    · by_cases h126 : b = 126
      · cases esc <;> simp [h126, ih]
      · by_cases h01 : (b = 48 ∨ b = 49) ∧ esc = true
        · simp [h47, h126, h01, ih]
        · cases esc <;> simp_all

theorem from_encoded_eq (s : Bytes) : Gen.Token.from_encoded s = Token.fromEncoded s := by
  have h := from_encoded_loop_eq s 0 false
  unfold Gen.Token.from_encoded Token.fromEncoded
  cases hg : Gen.Token.from_encoded.loop1 s 0 false with
  | ret r =>
    rw [hg] at h
    cases r with
    | err e => simp only at h; simp [hg, h]
    | ok a => simp at h
    | panic m => simp at h
  | done e =>
    rw [hg] at h
    simp only at h
    cases e <;> simp [hg, h]

theorem new_loop_eq (xs acc : Bytes) : Gen.Token.new.loop1 xs acc = acc ++ encodeFrom xs := by
  induction xs generalizing acc with
  | nil => simp [Gen.Token.new.loop1, encodeFrom]
  | cons b r ih =>
    unfold Gen.Token.new.loop1 encodeFrom
    by_cases h47 : b = 47
    · simp [h47, ih]
    · by_cases h126 : b = 126
      · simp [h126, ih]
      · simp [h47, h126, ih]

theorem new_eq (s : Bytes) : Gen.Token.new s = Token.new s := by
  unfold Gen.Token.new Token.new
  simp only [Cow.bytes]
  cases position (fun b => b == 47 || b == 126) s <;> simp [new_loop_eq]

theorem decoded_loop_eq (xs : Bytes) (esc : Bool) (acc : Bytes) :
    (Gen.Token.decoded.loop1 xs esc acc).2 = acc ++ decodeLoop xs esc := by
  induction xs generalizing esc acc with
  | nil => simp [Gen.Token.decoded.loop1, decodeLoop]
  | cons b r ih =>
    unfold Gen.Token.decoded.loop1 decodeLoop
    by_cases h126 : b = 126
    · simp [h126, ih]
    · by_cases h0 : b = 48 ∧ esc = true
      · simp [h0, ih]
      · by_cases h1 : b = 49 ∧ esc = true
        · simp [h1, ih]
        · simp [h126, h0, h1, ih]

theorem decoded_eq (t : Bytes) : Gen.Token.decoded t = Token.decoded t := by
  unfold Gen.Token.decoded Token.decoded
  cases position (fun b => b == 126) t with
  | none => rfl
  | some i =>
    simp only
    have := decoded_loop_eq (t.drop (i + 1)) true ([] ++ t.take i)
    cases hl : Gen.Token.decoded.loop1 (List.drop (i + 1) t) true ([] ++ List.take i t) with
    | mk e b => rw [hl] at this; simp at this; simp [this]

end Jp.Tie
