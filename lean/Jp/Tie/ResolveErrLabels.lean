import Jp.Gen.Rs.ResolveErrLabels
import Jp.Tie.ResolveErrPosition
import Jp.Tie.ResolveErrOffset
import Jp.Model.Assign
/-
  Jp.Tie.ResolveErrLabels — `<resolve::Error as Diagnostic>::labels` regenerated from the source — `origin.get(position)?`, the
  `offset + 1 < len` adjustment, the token's encoded length; the label's *text* is not modelled — is the model's
  `ResolveErr.label` (= `walkLabel origin position offset`). (DESIGN §16)
-/
namespace Jp.Tie
open Jp

theorem resolve_err_labels_eq (e : ResolveErr) (origin : Bytes) : Gen.resolve.Error.labels e origin = e.label origin := by
  simp only [Gen.resolve.Error.labels, resolve_err_position_eq, resolve_err_offset_eq, ResolveErr.label, walkLabel]
  cases getToken origin e.position with
  | none => rfl
  | some tok => by_cases h : e.offset + 1 < origin.length <;> simp [h]

end Jp.Tie
