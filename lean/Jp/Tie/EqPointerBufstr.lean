import Jp.Gen.Rs.EqPointerBufstr
import Jp.Model.Glue
/-
  Jp.Tie.EqPointerBufstr — `impl PartialEq<str> for PointerBuf`: `eq` regenerated from `src/pointer.rs` compares the two texts — the model's `strEq`. (DESIGN §16)
-/
namespace Jp.Tie
open Jp

theorem cmp_EqPointerBufstr_eq (a b : Bytes) : Gen.cmp.eq_PointerBuf_str a b = strEq a b := rfl

end Jp.Tie
