import Jp.Gen.Rs.SerializePointer
/-
  Jp.Tie.SerializePointer — `Serialize for Pointer` regenerated from `src/pointer.rs` hands exactly the pointer's text, as one string, to the
  serializer. (DESIGN §16)
-/
namespace Jp.Tie
open Jp

theorem serialize_pointer_eq (p : Bytes) : Gen.Pointer.serialize p () = p := rfl

end Jp.Tie
