import Jp.Gen.Rs.IndexTryFromToken
import Jp.Tie.IndexFromStr
/-
  Jp.Tie.IndexTryFromToken — `impl TryFrom<Token<'_>> for Index` regenerated from `src/index.rs` parses the token's *encoded*
  text with `Index::from_str`: it is the model's `Token.toIndex`. (DESIGN §16)
-/
namespace Jp.Tie
open Jp

theorem index_try_from_token_eq (t : Bytes) : Gen.Index.try_from_token t = Token.toIndex t := by
  simp [Gen.Index.try_from_token, Token.toIndex, index_from_str_eq]

end Jp.Tie
