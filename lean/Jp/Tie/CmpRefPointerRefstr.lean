import Jp.Gen.Rs.CmpRefPointerRefstr
import Jp.Model.Glue
/-
  Jp.Tie.CmpRefPointerRefstr — `impl PartialOrd<&str> for &Pointer`: `partial_cmp` regenerated from `src/pointer.rs` compares the two texts — the model's `strPartialCmp`. (DESIGN §16)
-/
namespace Jp.Tie
open Jp

theorem cmp_CmpRefPointerRefstr_eq (a b : Bytes) : Gen.cmp.partial_cmp_RefPointer_Refstr a b = strPartialCmp a b := rfl

end Jp.Tie
