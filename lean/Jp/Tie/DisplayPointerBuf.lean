import Jp.Gen.Rs.DisplayPointerBuf
/-
  Jp.Tie.DisplayPointerBuf — `Display for PointerBuf` regenerated from `src/pointer.rs` writes the buffer's text unchanged. (DESIGN §16)
-/
namespace Jp.Tie
open Jp

theorem display_pointer_buf_eq (p : Bytes) : Gen.PointerBuf.display p () = p := rfl

end Jp.Tie
