import Jp.Gen.Rs.ResolveErrPosition
import Jp.Model.Assign
/-
  Jp.Tie.ResolveErrPosition — `resolve::Error::position` regenerated from the source (an or-pattern over every variant) is the model's
  accessor `ResolveErr.position`. (DESIGN §16)
-/
namespace Jp.Tie
open Jp

theorem resolve_err_position_eq (e : ResolveErr) : Gen.resolve.Error.position e = e.position := by
  cases e <;> rfl

end Jp.Tie
