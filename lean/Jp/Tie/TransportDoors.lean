import Jp.Tie.PointerParse
import Jp.Tie.PointerBufParse
import Jp.Tie.BufTryFromString
import Jp.Tie.BufTryFromStr
import Jp.Tie.BufFromStr
import Jp.Props.C02
/-
  Jp.Tie.TransportDoors — C02 on the parsing doors as regenerated from the current `src/pointer.rs`: `validate`, `Pointer::parse`,
  `PointerBuf::parse`, `TryFrom<&str>`, `TryFrom<String>` and `FromStr for PointerBuf` (DESIGN §16).  The serde doors and
  `from_static` stay with the hand model and the correspondence.
-/
namespace Jp.Tie
open Jp Jp.Spec

/-- C02: the extracted `Pointer::parse` accepts exactly RFC 6901 pointer text, returns the input unchanged, and otherwise the
    declarative verdict's error -/
theorem gen_parse_eq_spec (s : Bytes) : Gen.Pointer.parse s = parseSpec s := by
  rw [pointer_parse_eq]; exact C02.parse_eq_spec s

theorem gen_parse_ok_iff (s : Bytes) : (∃ t, Gen.Pointer.parse s = .ok t) ↔ validPtr s = true := by
  rw [pointer_parse_eq, ← C02.validate_ok_iff]
  unfold Pointer.parse
  cases validate s <;> simp

/-- C02: the five extracted doors take the same decision, return the same text and, where they return one, the same error -/
theorem gen_doors_agree (s : Bytes) :
    Gen.PointerBuf.try_from_str s = Gen.Pointer.parse s ∧
    Gen.PointerBuf.from_str s = Gen.Pointer.parse s ∧
    Gen.PointerBuf.try_from_string s = Gen.Pointer.parse s ∧
    (Gen.PointerBuf.parse s = match Gen.Pointer.parse s with
      | .ok t => .ok t | .err e => .err (e, s) | .panic m => .panic m) := by
  rw [buf_try_from_str_eq, buf_from_str_eq, buf_try_from_string_eq, pointer_buf_parse_eq, pointer_parse_eq]
  obtain ⟨h1, h2, h3, h4, _⟩ := C02.doors_agree s
  exact ⟨h1, h2, h3, h4⟩

/-- the extracted doors never panic -/
theorem gen_parse_no_panic (s : Bytes) (m : String) : Gen.Pointer.parse s ≠ .panic m := by
  rw [pointer_parse_eq]
  unfold Pointer.parse
  have := C02.validate_no_panic s
  cases h : validate s with
  | ok u => simp
  | err e => simp
  | panic m' => exact absurd h (this m')

example : Gen.PointerBuf.parse [47, 126] = .err (.invalidEncoding 0 1 .tilde, [47, 126]) := by decide
example : Gen.Pointer.parse [] = .ok [] := by decide

end Jp.Tie
