import Jp.Tie.DeleteJson
import Jp.Tie.DeleteToml
import Jp.Props.C08
import Jp.Props.C09
/-
  Jp.Tie.TransportDelete — C08 / C09 restated about `Delete::delete` for `serde_json::Value` and `toml::Value` as
  regenerated from the current `src/delete.rs` (DESIGN §16). For a valid pointer the model never panics, so the
  "equal or both panic" tie becomes plain equality.
-/
namespace Jp.Tie
open Jp Jp.Spec

theorem gen_delete_json (D : Val) (p : Bytes) (hp : validPtr p = true) : Gen.json.delete D p = delete .json D p := by
  rcases delete_json_eq D p with h | ⟨_, _, h3⟩
  · exact h
  · exfalso
    cases hm : (delete .json D p).2 with
    | panic m => exact C08.delete_no_panic .json D p hp m hm
    | ok r => rw [hm] at h3; simp [Res.isPanic] at h3
    | err e => rw [hm] at h3; simp [Res.isPanic] at h3

theorem gen_delete_toml (D : Val) (p : Bytes) (hp : validPtr p = true) : Gen.toml.delete D p = delete .toml D p := by
  rcases delete_toml_eq D p with h | ⟨_, _, h3⟩
  · rw [h]; exact C09.toml_delete_eq D p
  · exfalso
    rw [C09.toml_delete_eq] at h3
    cases hm : (delete .toml D p).2 with
    | panic m => exact C08.delete_no_panic .toml D p hp m hm
    | ok r => rw [hm] at h3; simp [Res.isPanic] at h3
    | err e => rw [hm] at h3; simp [Res.isPanic] at h3

/-- C08: the extracted `delete` returns `Some(v)` exactly when the pointer resolves, to that value -/
theorem gen_delete_some_iff_resolves (D : Val) (p : Bytes) (v : Val) (hp : validPtr p = true) :
    (Gen.json.delete D p).2 = .ok (some v) ↔ ∃ l, resolve D p = .ok (l, v) := by
  rw [gen_delete_json D p hp]; exact C08.delete_some_iff_resolves .json D p v hp

/-- C08: otherwise it returns `None` and leaves the document unchanged -/
theorem gen_delete_none_unchanged (D : Val) (p : Bytes) (e : ResolveErr) (hp : validPtr p = true)
    (h : resolve D p = .err e) : Gen.json.delete D p = (D, .ok none) := by
  rw [gen_delete_json D p hp]; exact C08.delete_none_unchanged .json D p e hp h

/-- C08: never a panic, for every document and valid pointer (index = len, `-`, empty arrays included) -/
theorem gen_delete_no_panic (D : Val) (p : Bytes) (hp : validPtr p = true) (m : String) :
    (Gen.json.delete D p).2 ≠ .panic m ∧ (Gen.toml.delete D p).2 ≠ .panic m := by
  rw [gen_delete_json D p hp, gen_delete_toml D p hp]
  exact ⟨C08.delete_no_panic .json D p hp m, C08.delete_no_panic .toml D p hp m⟩

/-- C09: off the root the two backends' extracted `delete`s agree -/
theorem gen_delete_backends_agree (D : Val) (p : Bytes) (hp : validPtr p = true) (hne : p ≠ []) :
    Gen.json.delete D p = Gen.toml.delete D p := by
  rw [gen_delete_json D p hp, gen_delete_toml D p hp]
  exact C09.delete_backend_independent D p hp hne

example : Gen.json.delete (.arr [.scalar [49]]) [47, 49] = (.arr [.scalar [49]], .ok none) := by rfl
example : Gen.json.delete (.arr [.scalar [49]]) [47, 48] = (.arr [], .ok (some (.scalar [49]))) := by rfl

end Jp.Tie
