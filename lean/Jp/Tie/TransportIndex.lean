import Jp.Tie.ForLen
import Jp.Tie.ForLenIncl
import Jp.Tie.ForLenUnchecked
import Jp.Props.C16
/-
  Jp.Tie.TransportIndex — property theorems restated about the definitions regenerated from the current Rust source
  (`Jp.Gen.*`), obtained by rewriting with the tie theorems (DESIGN §16).
-/
namespace Jp.Tie
open Jp Jp.Spec

/-! ### C16: bound checks -/

theorem gen_for_len_exact (i : Index) (n : Nat) :
    Gen.Index.for_len i n = match i with
      | .num k => if k < n then .ok k else .err ⟨n, k⟩
      | .next => .err ⟨n, n⟩ := by
  rw [for_len_eq]; exact C16.forLen_exact i n

theorem gen_for_len_incl_exact (i : Index) (n : Nat) :
    Gen.Index.for_len_incl i n = match i with
      | .num k => if k ≤ n then .ok k else .err ⟨n, k⟩
      | .next => .ok n := by
  rw [for_len_incl_eq]; exact C16.forLenIncl_exact i n

theorem gen_for_len_unchecked_exact (i : Index) (n : Nat) :
    Gen.Index.for_len_unchecked i n = match i with | .num k => k | .next => n := by
  rw [for_len_unchecked_eq]; exact C16.forLenUnchecked_exact i n

end Jp.Tie
