import Jp.Tie.ForLen
import Jp.Tie.ForLenIncl
import Jp.Tie.ForLenUnchecked
import Jp.Tie.IndexFromStr
import Jp.Props.C16
/-
  Jp.Tie.TransportIndex — property theorems restated about the definitions regenerated from the current Rust source
  (`Jp.Gen.*`), obtained by rewriting with the tie theorems (DESIGN §16).
-/
namespace Jp.Tie
open Jp Jp.Spec

/-! ### C16: bound checks -/

theorem gen_for_len_exact (i : Index) (n : Nat) :
    Gen.Index.for_len i n = match i with
      | .num k => if k < n then .ok k else .err ⟨n, k⟩
      | .next => .err ⟨n, n⟩ := by
  rw [for_len_eq]; exact C16.forLen_exact i n

theorem gen_for_len_incl_exact (i : Index) (n : Nat) :
    Gen.Index.for_len_incl i n = match i with
      | .num k => if k ≤ n then .ok k else .err ⟨n, k⟩
      | .next => .ok n := by
  rw [for_len_incl_eq]; exact C16.forLenIncl_exact i n

theorem gen_for_len_unchecked_exact (i : Index) (n : Nat) :
    Gen.Index.for_len_unchecked i n = match i with | .num k => k | .next => n := by
  rw [for_len_unchecked_eq]; exact C16.forLenUnchecked_exact i n

/-- C16: the extracted `Index::from_str` is the declarative index grammar, error classification included -/
theorem gen_from_str_eq_spec (s : Bytes) : Gen.Index.from_str s = indexSpec s := by
  rw [index_from_str_eq]; exact C16.fromStr_eq_spec s

theorem gen_from_str_ok_iff (s : Bytes) : (∃ i, Gen.Index.from_str s = .ok i) ↔ validIndexStr s = true := by
  simp only [index_from_str_eq]; exact C16.fromStr_ok_iff s

theorem gen_from_str_no_panic (s : Bytes) (m : String) : Gen.Index.from_str s ≠ .panic m := by
  rw [index_from_str_eq]; exact C16.fromStr_no_panic s m

/-- `Display` gives the parsed string back -/
theorem gen_display_from_str (s : Bytes) (i : Index) (h : Gen.Index.from_str s = .ok i) : i.display = s := by
  rw [index_from_str_eq] at h; exact C16.display_fromStr s i h

example : Gen.Index.from_str [48, 49] = .err .leadingZeros := by decide
example : Gen.Index.from_str [49, 50] = .ok (.num 12) := by decide

end Jp.Tie
