import Jp.Gen.Rs.ParseErrSourceOffset
import Jp.Model.Pointer
/-
  Jp.Tie.ParseErrSourceOffset — `ParseError::source_offset` regenerated from `src/pointer.rs` is the model's `ParseError.sourceOffset`. (DESIGN §16)
-/
namespace Jp.Tie
open Jp

theorem parse_err_source_offset_eq (e : ParseError) : Gen.ParseError.source_offset e = e.sourceOffset := by
  cases e <;> rfl

end Jp.Tie
