import Jp.Gen.Rs.IndexTryFromTokenRef
import Jp.Tie.IndexFromStr
/-
  Jp.Tie.IndexTryFromTokenRef — `impl TryFrom<&Token<'_>> for Index` regenerated from `src/index.rs` parses the token's *encoded*
  text with `Index::from_str`: it is the model's `Token.toIndex`. (DESIGN §16)
-/
namespace Jp.Tie
open Jp

theorem index_try_from_token_ref_eq (t : Bytes) : Gen.Index.try_from_token_ref t = Token.toIndex t := by
  simp [Gen.Index.try_from_token_ref, Token.toIndex, index_from_str_eq]

end Jp.Tie
