import Jp.Tie.GetUsize
import Jp.Tie.First
import Jp.Tie.Last
import Jp.Tie.WithTrailingToken
import Jp.Tie.WithLeadingToken
import Jp.Tie.Concat
import Jp.Props.C04
/-
  Jp.Tie.TransportBuild — C04 (a pointer is exactly its list of tokens) restated about `get(usize)`, `first`, `last`,
  `with_trailing_token`, `with_leading_token` and `concat` as regenerated from the current source (DESIGN §16).
-/
namespace Jp.Tie
open Jp Jp.Spec

/-- C04: `get(i)` is the i-th element of the token list — `none` from the length on, for every index however large -/
theorem gen_get_usize_list (p : Bytes) (i : Nat) : Gen.Usize.get i p = (tokens p)[i]? := by
  rw [get_usize_eq]; exact C04.getToken_eq p i

/-- C04: `first` / `last` are the ends of the token list -/
theorem gen_first_last (p : Bytes) (h : validPtr p = true) :
    Gen.Pointer.first p = (tokens p).head? ∧ Gen.Pointer.last p = (tokens p).getLast? := by
  rw [first_eq, last_eq]; exact ⟨C04.front_eq p h, C04.back_eq p h⟩

/-- C04 / C01: appending a token appends to the list, and the result is valid pointer text -/
theorem gen_with_trailing_tokens (p tok : Bytes) (hp : validPtr p = true) (ht : validTok tok = true) :
    tokens (Gen.Pointer.with_trailing_token p tok) = tokens p ++ [tok] ∧ validPtr (Gen.Pointer.with_trailing_token p tok) = true := by
  rw [with_trailing_token_eq]; exact C04.withTrailing_tokens p tok hp ht

theorem gen_with_leading_tokens (p tok : Bytes) (hp : validPtr p = true) (ht : validTok tok = true) :
    tokens (Gen.Pointer.with_leading_token p tok) = tok :: tokens p ∧ validPtr (Gen.Pointer.with_leading_token p tok) = true := by
  rw [with_leading_token_eq]; exact C04.withLeading_tokens p tok hp ht

/-- C04 / C13: `concat` is list concatenation -/
theorem gen_concat_tokens (p q : Bytes) (hp : validPtr p = true) (hq : validPtr q = true) :
    tokens (Gen.Pointer.concat p q) = tokens p ++ tokens q ∧ validPtr (Gen.Pointer.concat p q) = true := by
  rw [concat_eq]; exact C04.concat_tokens p q hp hq

example : Gen.Pointer.concat [47, 97] [47, 98] = [47, 97, 47, 98] := by decide
example : Gen.Usize.get (2 ^ 64 - 1) [47, 97] = none := by decide

end Jp.Tie
