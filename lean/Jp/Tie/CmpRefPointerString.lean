import Jp.Gen.Rs.CmpRefPointerString
import Jp.Model.Glue
/-
  Jp.Tie.CmpRefPointerString — `impl PartialOrd<String> for &Pointer`: `partial_cmp` regenerated from `src/pointer.rs` compares the two texts — the model's `strPartialCmp`. (DESIGN §16)
-/
namespace Jp.Tie
open Jp

theorem cmp_CmpRefPointerString_eq (a b : Bytes) : Gen.cmp.partial_cmp_RefPointer_String a b = strPartialCmp a b := rfl

end Jp.Tie
