import Jp.Gen.Rs.ResolveErrIsFailedToParseIndex
import Jp.Model.Assign
/-
  Jp.Tie.ResolveErrIsFailedToParseIndex — `resolve::Error::is_failed_to_parse_index` (`matches!(self, …)`) regenerated from `src/resolve.rs` is true for exactly its own variant. (DESIGN §16)
-/
namespace Jp.Tie
open Jp

theorem resolveErrIsFailedToParseIndex_iff (e : ResolveErr) : Gen.resolve.Error.is_failed_to_parse_index e = (match e with | .failedToParseIndex _ _ _ => true | _ => false) := by
  cases e <;> rfl

end Jp.Tie
