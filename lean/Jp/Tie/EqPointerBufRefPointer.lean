import Jp.Gen.Rs.EqPointerBufRefPointer
import Jp.Model.Glue
/-
  Jp.Tie.EqPointerBufRefPointer — `impl PartialEq<&Pointer> for PointerBuf`: `eq` regenerated from `src/pointer.rs` compares the two texts — the model's `strEq`. (DESIGN §16)
-/
namespace Jp.Tie
open Jp

theorem cmp_EqPointerBufRefPointer_eq (a b : Bytes) : Gen.cmp.eq_PointerBuf_RefPointer a b = strEq a b := rfl

end Jp.Tie
