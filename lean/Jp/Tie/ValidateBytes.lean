import Jp.Gen.Rs.ValidateBytes
/-
  Jp.Tie.ValidateBytes — `validate_bytes` regenerated from `src/pointer.rs` (an index-driven `while` loop with explicit
  fuel) equals the hand-written model `validateBytes` (a recursion over the remaining bytes), for all inputs.
-/
namespace Jp.Tie
open Jp

private theorem drop_facts {bytes : Bytes} {i : Nat} {b : Nat} {r : Bytes} (h : bytes.drop i = b :: r) :
    bytes[i]? = some b ∧ bytes.drop (i + 1) = r ∧ i < bytes.length ∧ bytes.length - i = r.length + 1 := by
  have h0 : (bytes.drop i)[0]? = some b := by rw [h]; rfl
  rw [List.getElem?_drop] at h0
  have h1 : (bytes.drop i).tail = r := by rw [h]; rfl
  rw [List.tail_drop] at h1
  have h2 : (bytes.drop i).length = r.length + 1 := by rw [h]; rfl
  rw [List.length_drop] at h2
  refine ⟨by simpa using h0, h1, by omega, h2⟩

private theorem drop_nil {bytes : Bytes} {i : Nat} (h : bytes.drop i = []) : ¬ (i < bytes.length) := by
  have : (bytes.drop i).length = 0 := by rw [h]; rfl
  rw [List.length_drop] at this
  omega

/-- the fuelled index loop follows the model's loop over the remaining bytes -/
theorem validate_loop_eq (bytes : Bytes) :
    ∀ (n : Nat) (rest : Bytes) (i po to fuel : Nat), rest.length = n → bytes.drop i = rest → rest.length < fuel →
    (match validateLoop rest i po to with
     | .ok () => ∃ s, Gen.validate_bytes.loop1 bytes fuel po to i = .done s
     | .err e => Gen.validate_bytes.loop1 bytes fuel po to i = .ret (.err e)
     | .panic _ => False) := by
  intro n
  induction n using Nat.strongRecOn with
  | _ n ih =>
    intro rest i po to fuel hn hd hf
    cases fuel with
    | zero => simp at hf
    | succ f =>
      cases rest with
      | nil =>
        have := drop_nil hd
        simp [validateLoop, Gen.validate_bytes.loop1, this]
      | cons b r =>
        obtain ⟨hget, hdrop, hlt, hlen⟩ := drop_facts hd
        have hfr : r.length < f := by simp at hf; omega
        unfold validateLoop Gen.validate_bytes.loop1
        simp only [hlt, if_true, hget]
        by_cases hb47 : b = 47
        · simp only [hb47, if_true]
          have := ih r.length (by simp at hn; omega) r (i + 1) i 1 f rfl hdrop hfr
          simpa using this
        · simp only [hb47, if_false]
          by_cases hb126 : b = 126
          · simp only [hb126, if_true]
            cases r with
            | nil =>
              have hge : i + 1 ≥ bytes.length := by simp at hlen; omega
              simp [hge]
            | cons c r' =>
              obtain ⟨hget1, hdrop1, hlt1, _⟩ := drop_facts hdrop
              have hge : ¬ (i + 1 ≥ bytes.length) := by omega
              simp only [hge, if_false, hget1]
              have hrec := ih r'.length (by simp at hn; omega) r' (i + 2) po (to + 2) f rfl hdrop1
                (by simp at hfr; omega)
              by_cases h48 : c = 48
              · simp only [h48, ne_eq, not_true_eq_false, if_false, false_and]
                simpa using hrec
              · by_cases h49 : c = 49
                · simp only [h49, ne_eq, not_true_eq_false, if_false, and_false]
                  simpa using hrec
                · simp [h48, h49]
          · simp only [hb126, if_false]
            have := ih r.length (by simp at hn; omega) r (i + 1) po (to + 1) f rfl hdrop hfr
            simpa using this

theorem validate_bytes_eq (bytes : Bytes) (hne : bytes ≠ []) :
    Gen.validate_bytes bytes 0 = validateBytes bytes := by
  unfold Gen.validate_bytes validateBytes
  cases bytes with
  | nil => exact absurd rfl hne
  | cons b r =>
    simp only [List.getElem?_cons_zero]
    by_cases hb : b = 47
    · subst hb
      simp only [ne_eq, not_true_eq_false, if_false, List.length_cons, Nat.sub_zero]
      have := validate_loop_eq (47 :: r) _ (47 :: r) 0 0 0 (r.length + 1 + 1) rfl rfl (by simp)
      cases hm : validateLoop (47 :: r) 0 0 0 with
      | ok u => rw [hm] at this; obtain ⟨s, hs⟩ := this; cases u; simp [hs]
      | err e => rw [hm] at this; simp only at this; simp [this]
      | panic m => rw [hm] at this; exact absurd this (by simp)
    · simp [hb]

/-- on the empty slice both index `bytes[0]` out of range (the crate never calls it so: `validate` tests emptiness
    first); only the panic message differs -/
theorem validate_bytes_nil : (Gen.validate_bytes [] 0).isPanic = true ∧ (validateBytes []).isPanic = true := by
  constructor <;> rfl

end Jp.Tie
