import Jp.Gen.Rs.ParseErrIsNoLeadingSlash
import Jp.Model.Assign
/-
  Jp.Tie.ParseErrIsNoLeadingSlash — `ParseError::is_no_leading_slash` (`matches!(self, …)`) regenerated from `src/pointer.rs` is true for exactly its own variant. (DESIGN §16)
-/
namespace Jp.Tie
open Jp

theorem parseErrIsNoLeadingSlash_iff (e : ParseError) : Gen.ParseError.is_no_leading_slash e = (match e with | .noLeadingSlash => true | _ => false) := by
  cases e <;> rfl

end Jp.Tie
