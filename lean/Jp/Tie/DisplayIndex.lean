import Jp.Gen.Rs.DisplayIndex
import Jp.Model.Index
/-
  Jp.Tie.DisplayIndex — `Display for Index` regenerated from `src/index.rs` (`{index}` for a number, `-` for `Next`) is the model's
  `Index.display` (canonical decimal / `-`). (DESIGN §16)
-/
namespace Jp.Tie
open Jp

theorem display_index_eq (i : Index) : Gen.Index.display_fmt i () = i.display := by
  cases i <;> rfl

end Jp.Tie
