import Jp.Tie.GetBounds
import Jp.Props.C12
/-
  Jp.Tie.TransportSlice — property theorems restated about the definitions regenerated from the current Rust source
  (`Jp.Gen.*`), obtained by rewriting with the tie theorems (DESIGN §16).
-/
namespace Jp.Tie
open Jp Jp.Spec Jp.C12

/-! ### C12: range slicing -/

/-- all nine `Bound` pairings of the extracted `(Bound, Bound)::get` follow the range table -/
theorem gen_bounds_spec (p : Bytes) (lo hi : Bound) (h : validPtr p = true) :
    Gen.BoundPair.get lo hi p = spanOf p (boundsSpec (count p) lo hi) := by
  rw [bounds_eq]; exact C12.getBounds_spec p lo hi h

theorem gen_range_spec (p : Bytes) (a b : Nat) (h : validPtr p = true) :
    Gen.Range.get a b p = spanOf p (boundsSpec (count p) (.included a) (.excluded b)) := by
  rw [range_eq]; exact C12.getBounds_spec p (.included a) (.excluded b) h

theorem gen_no_panic (p : Bytes) (lo hi : Bound) (h : validPtr p = true) (m : String) :
    Gen.BoundPair.get lo hi p ≠ .panic m := by
  rw [bounds_eq]; exact (C12.no_panic p lo hi 0 0 h m).1

theorem gen_excluded_max_none (p : Bytes) (hi : Bound) :
    Gen.BoundPair.get (.excluded usizeMax) hi p = .ok none := by
  rw [bounds_eq]; exact C12.excluded_max_none p hi

/-! non-vacuity: concrete evaluations of the extracted definitions -/
example : Gen.BoundPair.get (.excluded 0) .unbounded [47, 97, 47, 98] = .ok (some (2, 4)) := by decide

end Jp.Tie
