import Jp.Gen.Rs.Validate
import Jp.Tie.ValidateBytes
/-
  Jp.Tie.Validate — `validate` regenerated from `src/pointer.rs` (the empty string is accepted at once, everything else goes to
  `validate_bytes(value.as_bytes(), 0)`; on success the *input* is handed back) is the model's `validate`, with the input as the
  accepted value. (DESIGN §16)
-/
namespace Jp.Tie
open Jp

theorem validate_eq (s : Bytes) :
    Gen.validate s = (match validate s with | .ok () => .ok s | .err e => .err e | .panic m => .panic m) := by
  unfold Gen.validate validate
  by_cases h : s = []
  · simp [h]
  · simp only [h, if_false, validate_bytes_eq s h]
    cases validateBytes s <;> rfl

end Jp.Tie
