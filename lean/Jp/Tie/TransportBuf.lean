import Jp.Tie.FromTokens
import Jp.Tie.PushFront
import Jp.Tie.PushBack
import Jp.Tie.PopBack
import Jp.Tie.Append
import Jp.Tie.Clear
import Jp.Tie.PopFront
import Jp.Tie.Replace
import Jp.Props.C04
import Jp.Props.C11
/-
  Jp.Tie.TransportBuf — C11 / C04 restated about the `PointerBuf` mutators regenerated from the current `src/pointer.rs`
  (`from_tokens` and all seven mutators), DESIGN §16.
-/
namespace Jp.Tie
open Jp Jp.Spec

/-- one step of a mutation history, with the regenerated definitions where they exist -/
def genBufStep (s : Bytes) : BufOp → Bytes × BufRet
  | .pushFront t => (Gen.PointerBuf.push_front s t, .unit)
  | .pushBack t => (Gen.PointerBuf.push_back s t, .unit)
  | .popFront => let (s', r) := Gen.PointerBuf.pop_front s; (s', .popped r)
  | .popBack => let (s', r) := Gen.PointerBuf.pop_back s; (s', .popped r)
  | .append other => (Gen.PointerBuf.append s other, .unit)
  | .replace i t => let (s', r) := Gen.PointerBuf.replace s i t; (s', .replaced r)
  | .clear => (Gen.PointerBuf.clear s, .unit)

theorem gen_buf_step_eq (s : Bytes) (op : BufOp) : genBufStep s op = bufStep s op := by
  cases op <;> simp [genBufStep, bufStep, push_front_eq, push_back_eq, pop_back_eq, pop_front_eq, replace_eq, append_eq, clear_eq]

/-- C11: every mutator step on the extracted definitions is the deque step on the token list, returns what the deque
    returns, and keeps the text valid -/
theorem gen_step_refines (s : Bytes) (op : BufOp) (hs : validPtr s = true) (hop : C11.OpOK op) :
    tokens (genBufStep s op).1 = (dequeStep (tokens s) op).1 ∧
    (genBufStep s op).2 = (dequeStep (tokens s) op).2 ∧
    validPtr (genBufStep s op).1 = true := by
  rw [gen_buf_step_eq]; exact C11.step_refines s op hs hop

/-- C04: the extracted `from_tokens` rebuilds a valid pointer from its own tokens -/
theorem gen_from_tokens_tokens (p : Bytes) (h : validPtr p = true) : Gen.PointerBuf.from_tokens (tokens p) = p := by
  rw [from_tokens_eq]; exact C04.fromTokens_tokens p h

/-- C11: `append` is concatenation of token lists, root neutral on both sides -/
theorem gen_append_tokens (s o : Bytes) (hs : validPtr s = true) (ho : validPtr o = true) :
    tokens (Gen.PointerBuf.append s o) = tokens s ++ tokens o := by
  rw [append_eq]; exact C11.append_tokens s o hs ho

theorem gen_append_root (s : Bytes) : Gen.PointerBuf.append [] s = s ∧ Gen.PointerBuf.append s [] = s := by
  rw [append_eq, append_eq]; exact ⟨C11.append_root_left s, C11.append_root_right s⟩

example : Gen.PointerBuf.pop_back [47, 97, 47, 126, 49] = ([47, 97], some [126, 49]) := by decide
example : Gen.PointerBuf.push_front [47, 98] [97] = [47, 97, 47, 98] := by decide

/-- a whole history run with the extracted mutators -/
def runGenBuf (s : Bytes) : List BufOp → Bytes × List BufRet
  | [] => (s, [])
  | op :: ops =>
    let (s', r) := genBufStep s op
    let (s'', rs) := runGenBuf s' ops
    (s'', r :: rs)

theorem run_gen_buf_eq (s : Bytes) (ops : List BufOp) : runGenBuf s ops = C11.runBuf s ops := by
  induction ops generalizing s with
  | nil => rfl
  | cons op ops ih => simp [runGenBuf, C11.runBuf, gen_buf_step_eq, ih]

/-- C11, every finite history on the extracted mutators: the text is `from_tokens` of the deque's content and every call
    returned what the deque returns -/
theorem gen_history_refines (s : Bytes) (ops : List BufOp) (hs : validPtr s = true) (hops : ∀ op ∈ ops, C11.OpOK op) :
    (runGenBuf s ops).1 = fromTokens (C11.runDeque (tokens s) ops).1 ∧
    (runGenBuf s ops).2 = (C11.runDeque (tokens s) ops).2 := by
  rw [run_gen_buf_eq]
  exact ⟨C11.history_text s ops hs hops, (C11.history_refines s ops hs hops).2.1⟩

end Jp.Tie
