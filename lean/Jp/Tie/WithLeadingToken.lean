import Jp.Gen.Rs.WithLeadingToken
import Jp.Tie.PushFront
/-
  Jp.Tie.WithLeadingToken — `Pointer::with_leading_token` (`to_buf` + `push_front`) regenerated from `src/pointer.rs` is the model's `withLeadingToken`. (DESIGN §16)
-/
namespace Jp.Tie
open Jp

theorem with_leading_token_eq (p tok : Bytes) : Gen.Pointer.with_leading_token p tok = withLeadingToken p tok := by
  simp [Gen.Pointer.with_leading_token, withLeadingToken, push_front_eq]

end Jp.Tie
