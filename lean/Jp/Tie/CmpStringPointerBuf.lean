import Jp.Gen.Rs.CmpStringPointerBuf
import Jp.Model.Glue
/-
  Jp.Tie.CmpStringPointerBuf — `impl PartialOrd<PointerBuf> for String`: `partial_cmp` regenerated from `src/pointer.rs` compares the two texts — the model's `strPartialCmp`. (DESIGN §16)
-/
namespace Jp.Tie
open Jp

theorem cmp_CmpStringPointerBuf_eq (a b : Bytes) : Gen.cmp.partial_cmp_String_PointerBuf a b = strPartialCmp a b := rfl

end Jp.Tie
