import Jp.Gen.Rs.TokenToIndex
import Jp.Tie.IndexTryFromTokenRef
/-
  Jp.Tie.TokenToIndex — `Token::to_index` regenerated from `src/token.rs` (`self.try_into()`, i.e. `TryFrom<&Token>`) is the
  model's `Token.toIndex` — the function the regenerated walks (`resolve`, `assign`, `delete`) call for `token.to_index()`. (DESIGN §16)
-/
namespace Jp.Tie
open Jp

theorem token_to_index_eq (t : Bytes) : Gen.Token.to_index t = Token.toIndex t := by
  simp [Gen.Token.to_index, index_try_from_token_ref_eq]

/-- the three ways from a token to an index agree -/
theorem token_index_doors_agree (t : Bytes) :
    Gen.Token.to_index t = Gen.Index.try_from_token_ref t ∧ Gen.Index.try_from_token_ref t = Gen.Index.from_str t := by
  simp [Gen.Token.to_index, Gen.Index.try_from_token_ref]

end Jp.Tie
