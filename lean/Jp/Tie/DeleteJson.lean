import Jp.Gen.Rs.DeleteJson
import Jp.Tie.ResolveMutJson
import Jp.Tie.SplitBack
import Jp.Tie.ForLen
import Jp.Model.Delete
/-
  Jp.Tie.DeleteJson — `impl Delete for serde_json::Value` regenerated from `src/delete.rs` equals the model's
  `delete .json` (same document afterwards, same returned value), up to the text of a panic message. (DESIGN §16)
-/
namespace Jp.Tie
open Jp

/-- equality of `delete` outcomes up to the panic message -/
def DelAgrees (g m : Val × Res Unit (Option Val)) : Prop :=
  g = m ∨ (g.1 = m.1 ∧ g.2.isPanic = true ∧ m.2.isPanic = true)

theorem delete_json_eq (doc : Val) (ptr : Bytes) : DelAgrees (Gen.json.delete doc ptr) (delete .json doc ptr) := by
  unfold Gen.json.delete delete
  simp only [split_back_eq, for_len_eq]
  cases hsb : splitBack ptr with
  | none => left; simp [rootRepl]
  | some pr =>
    obtain ⟨parentPtr, last⟩ := pr
    simp only []
    rcases resolve_mut_json_eq doc parentPtr with hre | ⟨hp1, hp2⟩
    · rw [hre]
      cases hr : resolveMut doc parentPtr with
      | err e => left; simp [Gen.panicOf, Gen.okOf]
      | panic m => left; simp [Gen.panicOf]
      | ok r =>
        obtain ⟨loc, parent⟩ := r
        simp only [Gen.panicOf, Gen.okOf]
        cases parent with
        | scalar a => left; rfl
        | obj kvs =>
          simp only []
          cases lookup (Token.decoded last).bytes kvs <;> (left; rfl)
        | arr xs =>
          simp only []
          cases hti : Token.toIndex last with
          | err e => left; simp [Gen.panicOf, Gen.okOf]
          | panic m => left; simp [Gen.panicOf]
          | ok index =>
            simp only [Gen.panicOf, Gen.okOf]
            cases hfl : Index.forLen index xs.length with
            | err e => left; simp [Gen.panicOf, Gen.okOf]
            | panic m => left; simp [Gen.panicOf]
            | ok idx =>
              simp only [Gen.panicOf, Gen.okOf]
              cases xs[idx]? <;> (left; rfl)
    · -- both walks panic (unreachable for valid pointers): the document is untouched on both sides
      right
      cases hg : Gen.json.resolve_mut doc parentPtr with
      | ok r => rw [hg] at hp1; simp [Res.isPanic] at hp1
      | err e => rw [hg] at hp1; simp [Res.isPanic] at hp1
      | panic m =>
        cases hm : resolveMut doc parentPtr with
        | ok r => rw [hm] at hp2; simp [Res.isPanic] at hp2
        | err e => rw [hm] at hp2; simp [Res.isPanic] at hp2
        | panic m' => simp [Gen.panicOf, Res.isPanic]

end Jp.Tie
