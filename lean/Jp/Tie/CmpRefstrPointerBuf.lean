import Jp.Gen.Rs.CmpRefstrPointerBuf
import Jp.Model.Glue
/-
  Jp.Tie.CmpRefstrPointerBuf — `impl PartialOrd<PointerBuf> for &str`: `partial_cmp` regenerated from `src/pointer.rs` compares the two texts — the model's `strPartialCmp`. (DESIGN §16)
-/
namespace Jp.Tie
open Jp

theorem cmp_CmpRefstrPointerBuf_eq (a b : Bytes) : Gen.cmp.partial_cmp_Refstr_PointerBuf a b = strPartialCmp a b := rfl

end Jp.Tie
