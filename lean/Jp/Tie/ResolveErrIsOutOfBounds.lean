import Jp.Gen.Rs.ResolveErrIsOutOfBounds
import Jp.Model.Assign
/-
  Jp.Tie.ResolveErrIsOutOfBounds — `resolve::Error::is_out_of_bounds` (`matches!(self, …)`) regenerated from `src/resolve.rs` is true for exactly its own variant. (DESIGN §16)
-/
namespace Jp.Tie
open Jp

theorem resolveErrIsOutOfBounds_iff (e : ResolveErr) : Gen.resolve.Error.is_out_of_bounds e = (match e with | .outOfBounds _ _ _ => true | _ => false) := by
  cases e <;> rfl

end Jp.Tie
