import Jp.Gen.Rs.CmpPointerBufString
import Jp.Model.Glue
/-
  Jp.Tie.CmpPointerBufString — `impl PartialOrd<String> for PointerBuf`: `partial_cmp` regenerated from `src/pointer.rs` compares the two texts — the model's `strPartialCmp`. (DESIGN §16)
-/
namespace Jp.Tie
open Jp

theorem cmp_CmpPointerBufString_eq (a b : Bytes) : Gen.cmp.partial_cmp_PointerBuf_String a b = strPartialCmp a b := rfl

end Jp.Tie
