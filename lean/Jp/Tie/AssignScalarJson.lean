import Jp.Gen.Rs.AssignScalarJson
import Jp.Tie.ExpandJson
/-
  Jp.Tie.AssignScalarJson — `assign::json::assign_scalar` regenerated from `src/assign.rs`: the scalar the reference points at
  is replaced by the expansion of the remaining pointer (current token included) and handed back. (DESIGN §16)
-/
namespace Jp.Tie
open Jp

theorem assign_scalar_json_eq (doc : Val) (rem : Bytes) (loc : Loc) (dest value : Val) :
    Gen.json.assign_scalar doc rem (loc, dest) value = (doc.setAt loc (expand rem value), .done (some dest)) := by
  simp [Gen.json.assign_scalar, expand_json_eq]

end Jp.Tie
