import Jp.Gen.Rs.ParseErrIsInvalidEncoding
import Jp.Model.Assign
/-
  Jp.Tie.ParseErrIsInvalidEncoding — `ParseError::is_invalid_encoding` (`matches!(self, …)`) regenerated from `src/pointer.rs` is true for exactly its own variant. (DESIGN §16)
-/
namespace Jp.Tie
open Jp

theorem parseErrIsInvalidEncoding_iff (e : ParseError) : Gen.ParseError.is_invalid_encoding e = (match e with | .invalidEncoding _ _ _ => true | _ => false) := by
  cases e <;> rfl

end Jp.Tie
