import Jp.Gen.Rs.AssignJson
import Jp.Tie.AssignValueJson
/-
  Jp.Tie.AssignJson — `<serde_json::Value as Assign>::assign` regenerated from `src/assign.rs` (`assign_value(ptr, self, value.into())`)
  equals the model's `assign`: same document afterwards, same result, for every document, pointer text and value. (DESIGN §16)
-/
namespace Jp.Tie
open Jp

/-- `<serde_json::Value as Assign>::assign` as regenerated = the model's `assign`: same document afterwards, same result -/
theorem assign_json_eq (doc : Val) (ptr : Bytes) (value : Val) : Gen.json.assign doc ptr value = assign doc ptr value := by
  unfold Gen.json.assign
  rw [assign_value_json_eq doc [] doc value ptr (by simp [Val.at])]
  simp [assign, Val.setAt]

example : Gen.json.assign (.obj [([97], .arr [.scalar [1]])]) [47, 97, 47, 45, 47, 98] (.scalar [2]) =
    (.obj [([97], .arr [.scalar [1], .obj [([98], .scalar [2])]])], .ok none) := by rfl

end Jp.Tie
