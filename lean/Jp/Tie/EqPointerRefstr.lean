import Jp.Gen.Rs.EqPointerRefstr
import Jp.Model.Glue
/-
  Jp.Tie.EqPointerRefstr — `impl PartialEq<&str> for Pointer`: `eq` regenerated from `src/pointer.rs` compares the two texts — the model's `strEq`. (DESIGN §16)
-/
namespace Jp.Tie
open Jp

theorem cmp_EqPointerRefstr_eq (a b : Bytes) : Gen.cmp.eq_Pointer_Refstr a b = strEq a b := rfl

end Jp.Tie
