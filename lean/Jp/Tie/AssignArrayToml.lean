import Jp.Gen.Rs.AssignArrayToml
import Jp.Tie.ExpandToml
import Jp.Lemmas.Toml
import Jp.Tie.IsRoot
import Jp.Tie.ForLenIncl
/-
  Jp.Tie.AssignArrayToml — `assign::toml::assign_array` regenerated from `src/assign.rs`: the token is parsed as an index
  (`FailedToParseIndex`), bounded by `for_len_incl` (`OutOfBounds`); an existing element is replaced (last token) or becomes
  the next destination; `idx == len` appends the expansion of the remaining pointer.  `debug_assert!(idx <= array.len())` and
  the checked `array[idx]` are shown never to fire. (DESIGN §16)
-/
namespace Jp.Tie
open Jp

theorem forLenIncl_le_t {i : Index} {n k : Nat} (h : Index.forLenIncl i n = .ok k) : k ≤ n := by
  cases i with
  | num m => simp only [Index.forLenIncl] at h; split at h <;> simp_all
  | next => simp [Index.forLenIncl] at h; omega

theorem assign_array_toml_eq (doc : Val) (token rem : Bytes) (loc : Loc) (array : List Val) (src : Val) (position offset : Nat) :
    Gen.toml.assign_array doc token rem (loc, array) src position offset =
      match Token.toIndex token with
      | .err source => (doc, .err (.failedToParseIndex position offset source))
      | .panic m => (doc, .panic m)
      | .ok index =>
        match index.forLenIncl array.length with
        | .err source => (doc, .err (.outOfBounds position offset source))
        | .panic m => (doc, .panic m)
        | .ok idx =>
          match array[idx]? with
          | some elem =>
            if isRoot rem then (doc.setAt (loc ++ [Step.idx idx]) src, .ok (.done (some elem)))
            else (doc, .ok (.cont (loc ++ [Step.idx idx], elem) src))
          | none => (doc.setAt loc (.arr (array ++ [expand rem src])), .ok (.done none)) := by
  simp only [Gen.toml.assign_array, is_root_eq, expand_toml_eq, toml_expand_eq, for_len_incl_eq]
  cases Token.toIndex token with
  | err e => rfl
  | panic m => rfl
  | ok index =>
    simp only []
    cases hfl : Index.forLenIncl index array.length with
    | err e => rfl
    | panic m => rfl
    | ok idx =>
      have hle : idx ≤ array.length := forLenIncl_le_t hfl
      simp only [hle, if_true]
      by_cases hlt : idx < array.length
      · have hget : array[idx]? = some array[idx] := List.getElem?_eq_getElem hlt
        simp only [hlt, if_true, hget]
      · simp [hlt]

end Jp.Tie
