import Jp.Gen.Rs.AssignErrOffset
import Jp.Model.Assign
/-
  Jp.Tie.AssignErrOffset — `assign::Error::offset` regenerated from the source (an or-pattern over every variant) is the model's
  accessor `AssignErr.offset`. (DESIGN §16)
-/
namespace Jp.Tie
open Jp

theorem assign_err_offset_eq (e : AssignErr) : Gen.assign.Error.offset e = e.offset := by
  cases e <;> rfl

end Jp.Tie
