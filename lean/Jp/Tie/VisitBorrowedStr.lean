import Jp.Gen.Rs.VisitBorrowedStr
import Jp.Tie.PointerParse
/-
  Jp.Tie.VisitBorrowedStr — the visitor of `Deserialize for &Pointer` (`visit_borrowed_str`: `Pointer::parse(v).map_err(custom)`) regenerated
  from `src/pointer.rs` is the model's door `Pointer.deserializeBorrowed`. (DESIGN §16)
-/
namespace Jp.Tie
open Jp

theorem visit_borrowed_str_eq (s : Bytes) : Gen.PointerVisitor.visit_borrowed_str () s = Pointer.deserializeBorrowed s := by
  unfold Gen.PointerVisitor.visit_borrowed_str Pointer.deserializeBorrowed
  simp only [pointer_parse_eq]
  cases Pointer.parse s <;> rfl

end Jp.Tie
