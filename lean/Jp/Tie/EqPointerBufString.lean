import Jp.Gen.Rs.EqPointerBufString
import Jp.Model.Glue
/-
  Jp.Tie.EqPointerBufString — `impl PartialEq<String> for PointerBuf`: `eq` regenerated from `src/pointer.rs` compares the two texts — the model's `strEq`. (DESIGN §16)
-/
namespace Jp.Tie
open Jp

theorem cmp_EqPointerBufString_eq (a b : Bytes) : Gen.cmp.eq_PointerBuf_String a b = strEq a b := rfl

end Jp.Tie
