import Jp.Gen.Rs.SerializePointerBuf
/-
  Jp.Tie.SerializePointerBuf — `Serialize for PointerBuf` regenerated from `src/pointer.rs` hands exactly the pointer's text, as one string, to the
  serializer. (DESIGN §16)
-/
namespace Jp.Tie
open Jp

theorem serialize_pointer_buf_eq (p : Bytes) : Gen.PointerBuf.serialize p () = p := rfl

end Jp.Tie
