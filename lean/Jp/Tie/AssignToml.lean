import Jp.Gen.Rs.AssignToml
import Jp.Tie.AssignValueToml
/-
  Jp.Tie.AssignToml — `<toml::Value as Assign>::assign` regenerated from `src/assign.rs` equals the model's `assign` and the
  model's separately written toml copy `Toml.assign`: same document afterwards, same result, for every input. (DESIGN §16)
-/
namespace Jp.Tie
open Jp

/-- `<toml::Value as Assign>::assign` as regenerated = the model's `assign`: same document afterwards, same result -/
theorem assign_toml_eq (doc : Val) (ptr : Bytes) (value : Val) : Gen.toml.assign doc ptr value = assign doc ptr value := by
  unfold Gen.toml.assign
  rw [assign_value_toml_eq doc [] doc value ptr (by simp [Val.at])]
  simp [assign, Val.setAt]

/-- … and the model's separately written toml copy -/
theorem assign_toml_eq_toml (doc : Val) (ptr : Bytes) (value : Val) : Gen.toml.assign doc ptr value = Toml.assign doc ptr value := by
  rw [assign_toml_eq]; simp [Toml.assign, assign, toml_assignValue_eq]

example : Gen.toml.assign (.obj [([97], .arr [.scalar [1]])]) [47, 97, 47, 45, 47, 98] (.scalar [2]) =
    (.obj [([97], .arr [.scalar [1], .obj [([98], .scalar [2])]])], .ok none) := by rfl

end Jp.Tie
