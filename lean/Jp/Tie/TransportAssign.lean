import Jp.Tie.AssignJson
import Jp.Tie.AssignToml
import Jp.Tie.TransportResolve
import Jp.Tie.TransportDelete
import Jp.Props.C06
import Jp.Props.C07
import Jp.Props.C10
import Jp.Props.C15
/-
  Jp.Tie.TransportAssign — C06 / C07 / C09 / C10 / C15 restated about `Assign::assign` for `serde_json::Value` and
  `toml::Value` as regenerated from the current `src/assign.rs` (`assign` → `assign_value` → `assign_array` /
  `assign_object` / `assign_scalar` → `expand`; DESIGN §16).  The tie is plain equality for every document, pointer text
  and value, so the property theorems move over by rewriting.  `genStep` is one call of a C10 history made of
  regenerated functions only.
-/
namespace Jp.Tie
open Jp Jp.Spec Jp.C10

/-- C06: the extracted `assign` follows the replace-or-expand rules of the reference tree store -/
theorem gen_assign_eq_spec (D v : Val) (p : Bytes) (hp : validPtr p = true) :
    (match assignSpec D (tokens p) v with
     | .ok (D', r) => Gen.json.assign D p v = (D', .ok r)
     | .err k => ∃ e, Gen.json.assign D p v = (D, .err e) ∧ C06.kindOfA e = k
     | .panic _ => False) := by
  rw [assign_json_eq]; exact C06.assign_eq_spec D v p hp

/-- C06: assigning at the root replaces the document and returns the old one -/
theorem gen_assign_root (D v : Val) : Gen.json.assign D [] v = (v, .ok (some D)) := by
  rw [assign_json_eq]; exact C06.assign_root D v

/-- C06: no panic — the `debug_assert!`, the checked `array[idx]` and every other panic site of the extracted code included -/
theorem gen_assign_no_panic (D v : Val) (p : Bytes) (hp : validPtr p = true) (m : String) :
    (Gen.json.assign D p v).2 ≠ .panic m ∧ (Gen.toml.assign D p v).2 ≠ .panic m := by
  rw [assign_json_eq, assign_toml_eq]; exact ⟨C06.assign_no_panic D v p hp m, C06.assign_no_panic D v p hp m⟩

/-- C07: an error leaves the document as it was -/
theorem gen_assign_atomic (D v : Val) (p : Bytes) (e : AssignErr) (hp : validPtr p = true)
    (h : (Gen.json.assign D p v).2 = .err e) : (Gen.json.assign D p v).1 = D := by
  rw [assign_json_eq] at h ⊢; exact C07.atomic D v p e hp h

/-- C07: read your write -/
theorem gen_assign_read_your_write (D v D' : Val) (p : Bytes) (r : Option Val) (hp : validPtr p = true)
    (h : Gen.json.assign D p v = (D', .ok r)) : walkDash D' (tokens p) = some v := by
  rw [assign_json_eq] at h; exact C07.read_your_write D v D' p r hp h

/-- C07: locality, read back through the extracted `resolve` -/
theorem gen_assign_frame (D v D' : Val) (p q : Bytes) (r : Option Val) (lw : Loc × Val)
    (hp : validPtr p = true) (hq : validPtr q = true) (h : Gen.json.assign D p v = (D', .ok r))
    (hon : ¬ tokens q <+: tokens p) (hbelow : ¬ tokens p <+: tokens q)
    (hw : Gen.json.resolve D q = .ok lw) : Gen.json.resolve D' q = .ok lw := by
  rw [assign_json_eq] at h
  rw [gen_resolve_json D q hq] at hw
  rw [gen_resolve_json D' q hq]
  exact C07.frame D v D' p q r lw hp hq h hon hbelow hw

/-- C07: the returned value is what the pointer resolved to -/
theorem gen_assign_replaced_some (D v : Val) (p : Bytes) (l : Loc) (w : Val) (hp : validPtr p = true)
    (hr : Gen.json.resolve D p = .ok (l, w)) : (Gen.json.assign D p v).2 = .ok (some w) := by
  rw [gen_resolve_json D p hp] at hr
  rw [assign_json_eq]; exact C07.replaced_some D v p l w hp hr

/-- C07: `None` only if nothing that existed was overwritten -/
theorem gen_assign_replaced_none (D v D' : Val) (p : Bytes) (hp : validPtr p = true)
    (h : Gen.json.assign D p v = (D', .ok none)) : C07.Preserved D D' := by
  rw [assign_json_eq] at h; exact C07.replaced_none D v D' p hp h

/-- C07: idempotence of a `-`-free assignment -/
theorem gen_assign_idempotent (D v D' : Val) (p : Bytes) (r : Option Val) (hp : validPtr p = true)
    (hdash : ∀ t ∈ tokens p, t ≠ [45]) (h : Gen.json.assign D p v = (D', .ok r)) :
    Gen.json.assign D' p v = (D', .ok (some v)) := by
  rw [assign_json_eq] at h ⊢; exact C07.idempotent D v D' p r hp hdash h

/-- C09: the two separately written copies of `assign`, as extracted, agree on every input (no validity hypothesis) -/
theorem gen_assign_backends_agree (D v : Val) (p : Bytes) : Gen.json.assign D p v = Gen.toml.assign D p v := by
  rw [assign_json_eq, assign_toml_eq]

/-- C15: an error of the extracted `assign` names the failing token: `position` is its index among the tokens, `offset` the byte
    offset of the `/` that introduces it, and the label covers it -/
theorem gen_assign_err_locates (D v : Val) (p : Bytes) (e : AssignErr) (hp : validPtr p = true)
    (h : (Gen.json.assign D p v).2 = .err e) : C15.Locates p e.position e.offset (e.label p) := by
  rw [assign_json_eq] at h; exact C15.assign_err_locates D v p e hp h

/-- C15: … and both lie inside the pointer -/
theorem gen_assign_error_offsets_bounded (D v : Val) (p : Bytes) (e : AssignErr) (hp : validPtr p = true)
    (h : (Gen.toml.assign D p v).2 = .err e) : e.offset < p.length ∧ e.position < count p := by
  rw [assign_toml_eq] at h; exact C15.assign_error_offsets_bounded D v p e hp h

/-! ### C10: a history whose every call is regenerated code -/

/-- one call, through the functions regenerated from `src/assign.rs`, `src/delete.rs` and `src/resolve.rs` only -/
def genStep (b : Backend) (D : Val) : Op → Val × Ret
  | .assign p v =>
    match (match b with | .json => Gen.json.assign D p v | .toml => Gen.toml.assign D p v) with
    | (D', .ok r) => (D', .assigned (.ok r))
    | (D', .err e) => (D', .assigned (.err (C06.kindOfA e)))
    | (D', .panic _) => (D', .panicked)
  | .delete p =>
    match (match b with | .json => Gen.json.delete D p | .toml => Gen.toml.delete D p) with
    | (D', .ok r) => (D', .deleted r)
    | (D', _) => (D', .panicked)
  | .resolve p =>
    (D, .resolved (C05.absR (match b with | .json => Gen.json.resolve D p | .toml => Gen.toml.resolve D p)))
  | .write p v =>
    match (match b with | .json => Gen.json.resolve_mut D p | .toml => Gen.toml.resolve_mut D p) with
    | .ok (loc, _) => (D.setAt loc v, .written true)
    | .err _ => (D, .written false)
    | .panic _ => (D, .panicked)

theorem genStep_eq_modelStep (b : Backend) (D : Val) (op : Op) (hp : validPtr op.ptr = true) :
    genStep b D op = C10.modelStep b D op := by
  cases op with
  | assign p v =>
    cases b <;> simp only [genStep, C10.modelStep, assign_json_eq, assign_toml_eq] <;>
      (rcases assign D p v with ⟨D', r | e | m⟩ <;> rfl)
  | delete p =>
    have hp' : validPtr p = true := hp
    cases b <;> simp only [genStep, C10.modelStep, gen_delete_json D p hp', gen_delete_toml D p hp']
    · rcases delete .json D p with ⟨D', r | e | m⟩ <;> rfl
    · rcases delete .toml D p with ⟨D', r | e | m⟩ <;> rfl
  | resolve p =>
    have hp' : validPtr p = true := hp
    cases b <;> simp only [genStep, C10.modelStep, gen_resolve_json D p hp', gen_resolve_toml D p hp']
  | write p v =>
    have hp' : validPtr p = true := hp
    cases b <;>
      simp only [genStep, C10.modelStep, writeThrough, gen_resolve_mut_json D p hp', gen_resolve_mut_toml D p hp',
        C09.resolveMut_eq_resolve] <;>
      cases resolve D p <;> rfl

/-- C10: every finite history of extracted calls agrees with the reference tree store, step by step -/
theorem gen_tree_history_refines (b : Backend) (D : Val) (ops : List Op)
    (hops : ∀ op ∈ ops, validPtr op.ptr = true) :
    run (genStep b) D ops = run (specStep b) D ops := by
  rw [run_congr (genStep b) (C10.modelStep b) (fun op => validPtr op.ptr = true)
    (fun D op h => genStep_eq_modelStep b D op h) D ops hops]
  exact C10.history_refines b D ops hops

/-- C10: no call in any history of extracted calls panics -/
theorem gen_tree_no_step_panics (b : Backend) (D : Val) (ops : List Op)
    (hops : ∀ op ∈ ops, validPtr op.ptr = true) :
    ∀ x ∈ run (genStep b) D ops, x.2 ≠ Ret.panicked := by
  rw [run_congr (genStep b) (C10.modelStep b) (fun op => validPtr op.ptr = true)
    (fun D op h => genStep_eq_modelStep b D op h) D ops hops]
  exact C10.no_step_panics b D ops hops

example : (genStep .json (.obj []) (.assign [47, 97, 47, 48] (.scalar [116]))).1 = .obj [([97], .arr [.scalar [116]])] := by rfl

end Jp.Tie
