import Jp.Gen.Rs.ForLen
import Jp.Gen.Rs.ForLenIncl
import Jp.Gen.Rs.ForLenUnchecked
/-
  Jp.Tie.Index — the definitions regenerated from `src/index.rs` equal the hand-written model, for all inputs.
-/
namespace Jp.Tie
open Jp

theorem for_len_eq (i : Index) (n : Nat) : Gen.Index.for_len i n = Index.forLen i n := by
  cases i <;> simp [Gen.Index.for_len, Index.forLen]

theorem for_len_incl_eq (i : Index) (n : Nat) : Gen.Index.for_len_incl i n = Index.forLenIncl i n := by
  cases i <;> simp [Gen.Index.for_len_incl, Index.forLenIncl]

theorem for_len_unchecked_eq (i : Index) (n : Nat) :
    Gen.Index.for_len_unchecked i n = Index.forLenUnchecked i n := by
  cases i <;> simp [Gen.Index.for_len_unchecked, Index.forLenUnchecked]

end Jp.Tie
