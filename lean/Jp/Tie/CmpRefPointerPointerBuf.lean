import Jp.Gen.Rs.CmpRefPointerPointerBuf
import Jp.Model.Glue
/-
  Jp.Tie.CmpRefPointerPointerBuf — `impl PartialOrd<PointerBuf> for &Pointer`: `partial_cmp` regenerated from `src/pointer.rs` compares the two texts — the model's `strPartialCmp`. (DESIGN §16)
-/
namespace Jp.Tie
open Jp

theorem cmp_CmpRefPointerPointerBuf_eq (a b : Bytes) : Gen.cmp.partial_cmp_RefPointer_PointerBuf a b = strPartialCmp a b := rfl

end Jp.Tie
