import Jp.Gen.Rs.ParseErrPointerOffset
import Jp.Model.Pointer
/-
  Jp.Tie.ParseErrPointerOffset — `ParseError::pointer_offset` regenerated from `src/pointer.rs` is the model's `ParseError.pointerOffset`. (DESIGN §16)
-/
namespace Jp.Tie
open Jp

theorem parse_err_pointer_offset_eq (e : ParseError) : Gen.ParseError.pointer_offset e = e.pointerOffset := by
  cases e <;> rfl

end Jp.Tie
