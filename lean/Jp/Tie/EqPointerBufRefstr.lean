import Jp.Gen.Rs.EqPointerBufRefstr
import Jp.Model.Glue
/-
  Jp.Tie.EqPointerBufRefstr — `impl PartialEq<&str> for PointerBuf`: `eq` regenerated from `src/pointer.rs` compares the two texts — the model's `strEq`. (DESIGN §16)
-/
namespace Jp.Tie
open Jp

theorem cmp_EqPointerBufRefstr_eq (a b : Bytes) : Gen.cmp.eq_PointerBuf_Refstr a b = strEq a b := rfl

end Jp.Tie
