import Jp.Tie.ValidateBytes
import Jp.Tie.ParseErrOffset
import Jp.Tie.ParseErrLabels
import Jp.Props.C14
/-
  Jp.Tie.TransportParseErr — C14 end to end on regenerated code: the error produced by the extracted `validate_bytes`, read
  through the extracted accessors `pointer_offset` / `source_offset` / `complete_offset` / `offset` and `Diagnostic::labels`,
  pinpoints the first offence (DESIGN §16).
-/
namespace Jp.Tie
open Jp Jp.Spec

/-- C14: for an encoding error of the extracted validator, the extracted accessors give the offset of the first `~` not followed
    by `0`/`1` (`complete_offset`), the `/` that introduces its token (`pointer_offset`, also the older `offset`), and their
    difference (`source_offset`) -/
theorem gen_invalid_encoding_offsets (s : Bytes) (hne : s ≠ []) (e : ParseError) (hk : e ≠ .noLeadingSlash)
    (h : Gen.validate_bytes s 0 = .err e) :
    firstBadTilde s = some (Gen.ParseError.complete_offset e) ∧
    lastSlashAtOrBefore s (Gen.ParseError.complete_offset e) = some (Gen.ParseError.pointer_offset e) ∧
    Gen.ParseError.complete_offset e = Gen.ParseError.pointer_offset e + Gen.ParseError.source_offset e ∧
    Gen.ParseError.offset e = Gen.ParseError.pointer_offset e := by
  rw [validate_bytes_eq s hne] at h
  have hv : validate s = .err e := by simpa [validate, hne] using h
  rw [parse_err_complete_offset_eq, parse_err_pointer_offset_eq, parse_err_source_offset_eq, parse_err_offset_eq]
  cases e with
  | noLeadingSlash => exact absurd rfl hk
  | invalidEncoding po so k =>
    obtain ⟨h1, h2, h3, _⟩ := C14.invalid_encoding_offsets s po so k hv
    simp only [ParseError.completeOffset, ParseError.pointerOffset, ParseError.sourceOffset] at h3 ⊢
    refine ⟨by rw [h1]; congr 1; omega, by rw [show so + po = po + so by omega]; exact h2, by omega, trivial⟩

/-- C14: the extracted `labels` yields exactly one label and it lies inside the input -/
theorem gen_label_inside (s : Bytes) (hne : s ≠ []) (e : ParseError) (h : Gen.validate_bytes s 0 = .err e) :
    ∃ o l, Gen.ParseError.labels e s = some (o, l) ∧ o + l ≤ s.length := by
  rw [validate_bytes_eq s hne] at h
  have hv : validate s = .err e := by simpa [validate, hne] using h
  exact ⟨(e.label s).1, (e.label s).2, by rw [parse_err_labels_eq], C14.label_inside s e hv⟩

/-- C14: … and, for an encoding error, starts at the offending `~` -/
theorem gen_label_starts_at_tilde (s : Bytes) (hne : s ≠ []) (po so : Nat) (k : EncKind)
    (h : Gen.validate_bytes s 0 = .err (.invalidEncoding po so k)) :
    ∃ l, Gen.ParseError.labels (.invalidEncoding po so k) s = some (po + so, l) ∧ 1 ≤ l ∧ firstBadTilde s = some (po + so) := by
  rw [validate_bytes_eq s hne] at h
  have hv : validate s = .err (.invalidEncoding po so k) := by simpa [validate, hne] using h
  obtain ⟨h1, h2, h3⟩ := C14.label_starts_at_tilde s po so k hv
  exact ⟨((ParseError.invalidEncoding po so k).label s).2, by rw [parse_err_labels_eq, ← h1], h3, h2⟩

example : Gen.ParseError.labels (.invalidEncoding 2 1 .tilde) [47, 97, 47, 126] = some (3, 1) := by decide

end Jp.Tie
