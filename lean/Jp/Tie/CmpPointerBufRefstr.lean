import Jp.Gen.Rs.CmpPointerBufRefstr
import Jp.Model.Glue
/-
  Jp.Tie.CmpPointerBufRefstr — `impl PartialOrd<&str> for PointerBuf`: `partial_cmp` regenerated from `src/pointer.rs` compares the two texts — the model's `strPartialCmp`. (DESIGN §16)
-/
namespace Jp.Tie
open Jp

theorem cmp_CmpPointerBufRefstr_eq (a b : Bytes) : Gen.cmp.partial_cmp_PointerBuf_Refstr a b = strPartialCmp a b := rfl

end Jp.Tie
