import Jp.Gen.Rs.ParseErrInvalidEncodingLen
import Jp.Tie.ParseErrCompleteOffset
import Jp.Model.Pointer
/-
  Jp.Tie.ParseErrInvalidEncodingLen — `ParseError::invalid_encoding_len` regenerated from `src/pointer.rs` is the model's `ParseError.invalidEncodingLen`. (DESIGN §16)
-/
namespace Jp.Tie
open Jp

theorem parse_err_invalid_encoding_len_eq (e : ParseError) (subject : Bytes) :
    Gen.ParseError.invalid_encoding_len e subject = e.invalidEncodingLen subject := by
  cases e <;> simp [Gen.ParseError.invalid_encoding_len, ParseError.invalidEncodingLen, parse_err_complete_offset_eq]

end Jp.Tie
