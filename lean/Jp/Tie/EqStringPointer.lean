import Jp.Gen.Rs.EqStringPointer
import Jp.Model.Glue
/-
  Jp.Tie.EqStringPointer — `impl PartialEq<Pointer> for String`: `eq` regenerated from `src/pointer.rs` compares the two texts — the model's `strEq`. (DESIGN §16)
-/
namespace Jp.Tie
open Jp

theorem cmp_EqStringPointer_eq (a b : Bytes) : Gen.cmp.eq_String_Pointer a b = strEq a b := rfl

end Jp.Tie
