import Jp.Gen.Rs.AssignErrIsFailedToParseIndex
import Jp.Model.Assign
/-
  Jp.Tie.AssignErrIsFailedToParseIndex — `assign::Error::is_failed_to_parse_index` (`matches!(self, …)`) regenerated from `src/assign.rs` is true for exactly its own variant. (DESIGN §16)
-/
namespace Jp.Tie
open Jp

theorem assignErrIsFailedToParseIndex_iff (e : AssignErr) : Gen.assign.Error.is_failed_to_parse_index e = (match e with | .failedToParseIndex _ _ _ => true | _ => false) := by
  cases e <;> rfl

end Jp.Tie
