import Jp.Gen.Rs.PointerTokens
/-
  Jp.Tie.PointerTokens — `Pointer::tokens` regenerated from `src/pointer.rs` (`split('/')`, the piece before the leading `/` skipped by
  one `next()`) is the model's iterator constructor `Tokens.new`. (DESIGN §16)
-/
namespace Jp.Tie
open Jp

theorem pointer_tokens_iter_eq (p : Bytes) : Gen.Pointer.tokens_iter p = Tokens.new p := rfl

end Jp.Tie
