import Jp.Gen.Rs.ComponentsNext
import Jp.Tie.TokensNext
/-
  Jp.Tie.ComponentsNext — `<Components as Iterator>::next` regenerated from `src/component.rs` (the `sent_root` flag, then the tokens)
  is the model's `Components.next`; the iterator's two fields are the state. (DESIGN §16)
-/
namespace Jp.Tie
open Jp

theorem components_next_eq (c : Components) : Gen.Components.next c.sentRoot c.tokens = Components.next c := by
  unfold Gen.Components.next Components.next
  cases hs : c.sentRoot with
  | false => simp
  | true =>
    simp only [tokens_next_eq, Bool.not_true]
    cases h : Tokens.next c.tokens with
    | mk it t => simp [hs]

end Jp.Tie
