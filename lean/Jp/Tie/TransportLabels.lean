import Jp.Tie.ResolveErrLabels
import Jp.Tie.AssignErrLabels
import Jp.Tie.TransportResolve
import Jp.Tie.TransportAssign
import Jp.Props.C15
/-
  Jp.Tie.TransportLabels — C15 end to end on regenerated code: the walk (`resolve` / `resolve_mut` / `assign`, both backends),
  the error's accessors `position()` / `offset()` and `Diagnostic::labels`, all as extracted from the current source, locate
  the failing token (DESIGN §16).
-/
namespace Jp.Tie
open Jp Jp.Spec

/-- C15: an error of the extracted `resolve`, read through the extracted accessors and `labels`, names the failing token -/
theorem gen_resolve_err_locates (D : Val) (p : Bytes) (e : ResolveErr) (hp : validPtr p = true)
    (h : Gen.json.resolve D p = .err e) :
    C15.Locates p (Gen.resolve.Error.position e) (Gen.resolve.Error.offset e) (Gen.resolve.Error.labels e p) := by
  rw [gen_resolve_json D p hp] at h
  rw [resolve_err_position_eq, resolve_err_offset_eq, resolve_err_labels_eq]
  exact C15.resolve_err_locates D p e hp h

/-- … the same through `resolve_mut` and on the toml copies -/
theorem gen_resolve_err_locates_all (D : Val) (p : Bytes) (e : ResolveErr) (hp : validPtr p = true)
    (h : Gen.json.resolve_mut D p = .err e ∨ Gen.toml.resolve D p = .err e ∨ Gen.toml.resolve_mut D p = .err e) :
    C15.Locates p (Gen.resolve.Error.position e) (Gen.resolve.Error.offset e) (Gen.resolve.Error.labels e p) := by
  rw [gen_resolve_mut_json D p hp, gen_resolve_toml D p hp, gen_resolve_mut_toml D p hp] at h
  have h' : resolve D p = .err e := by rcases h with h | h | h <;> exact h
  rw [resolve_err_position_eq, resolve_err_offset_eq, resolve_err_labels_eq]
  exact C15.resolve_err_locates D p e hp h'

/-- C15: likewise for the extracted `assign` (either backend) -/
theorem gen_assign_err_locates_labels (D v : Val) (p : Bytes) (e : AssignErr) (hp : validPtr p = true)
    (h : (Gen.json.assign D p v).2 = .err e ∨ (Gen.toml.assign D p v).2 = .err e) :
    C15.Locates p (Gen.assign.Error.position e) (Gen.assign.Error.offset e) (Gen.assign.Error.labels e p) := by
  rw [assign_json_eq, assign_toml_eq] at h
  have h' : (assign D p v).2 = .err e := by rcases h with h | h <;> exact h
  rw [assign_err_position_eq, assign_err_offset_eq, assign_err_labels_eq]
  exact C15.assign_err_locates D v p e hp h'

/-- the label of a non-empty token covers exactly that token's text -/
theorem gen_label_covers_token (D : Val) (p : Bytes) (e : ResolveErr) (tok : Bytes) (hp : validPtr p = true)
    (ht : (tokens p)[Gen.resolve.Error.position e]? = some tok) (hl : 0 < tok.length)
    (ho : Gen.resolve.Error.offset e = off (tokens p) (Gen.resolve.Error.position e)) :
    ∃ o l, Gen.resolve.Error.labels e p = some (o, l) ∧ (p.drop o).take l = tok := by
  rw [resolve_err_labels_eq, ResolveErr.label]
  rw [resolve_err_position_eq] at ht ho
  rw [resolve_err_offset_eq] at ho
  rw [ho]
  exact C15.label_covers_token p e.position tok hp ht hl

example : Gen.resolve.Error.labels (.notFound 1 2) [47, 97, 47, 98, 99] = some (3, 2) := by decide

end Jp.Tie
