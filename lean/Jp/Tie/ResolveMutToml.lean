import Jp.Gen.Rs.ResolveMutToml
import Jp.Tie.WalkAgrees
import Jp.Tie.SplitFront
import Jp.Tie.ForLen
import Jp.Lemmas.Toml
/-
  Jp.Tie.ResolveMutToml — `impl ResolveMut for toml::Value` regenerated from `src/resolve.rs` (a fuelled `while let`
  loop over `(ptr, value, offset, position)`) equals the hand-written model `Jp.Toml.resolveMut` (well-founded recursion on the
  remaining pointer), for all documents and pointers.  (DESIGN §16)
-/
namespace Jp.Tie
open Jp

theorem resolve_mut_toml_loop (n : Nat) :
    ∀ (ptr : Bytes) (value : Val) (loc : Loc) (offset position fuel : Nat), ptr.length = n → ptr.length < fuel →
      WalkAgrees (Gen.toml.resolve_mut.loop1 fuel ptr (loc, value) offset position)
        (Toml.resolveMutLoop ptr value offset position loc) := by
  induction n using Nat.strongRecOn with
  | _ n ih =>
    intro ptr value loc offset position fuel hn hf
    cases fuel with
    | zero => omega
    | succ f =>
      unfold Gen.toml.resolve_mut.loop1
      simp only [split_front_eq]
      cases hsf : splitFront ptr with
      | none => rw [Toml.resolveMutLoop_none hsf]; simp [WalkAgrees]
      | some tr =>
        obtain ⟨token, rem⟩ := tr
        have hlt : rem.length < ptr.length := splitFront_length hsf
        have hrec := fun v l o k => ih rem.length (by omega) rem v l o k f rfl (by omega)
        rw [Toml.resolveMutLoop_some hsf]
        cases value with
        | scalar a => simp [WalkAgrees]
        | arr v =>
          simp only [for_len_eq]
          cases hti : Token.toIndex token with
          | err e => simp [WalkAgrees]
          | panic m => simp [WalkAgrees]
          | ok index =>
            simp only []
            cases hfl : Index.forLen index v.length with
            | err e => simp [WalkAgrees]
            | panic m => simp [WalkAgrees]
            | ok idx =>
              simp only []
              cases hget : v[idx]? with
              | none => simp [WalkAgrees]
              | some c => simpa using hrec c (loc ++ [.idx idx]) (offset + (1 + token.length)) (position + 1)
        | obj kvs =>
          simp only []
          cases hl : lookup (Token.decoded token).bytes kvs with
          | none => simp [WalkAgrees]
          | some c =>
            simpa using hrec c (loc ++ [.key (Token.decoded token).bytes]) (offset + (1 + token.length)) (position + 1)

/-- `ResolveMut::resolve_mut` for `toml::Value`, regenerated, against the model: same node and location, same error -/
theorem resolve_mut_toml_eq (doc : Val) (ptr : Bytes) :
    Gen.toml.resolve_mut doc ptr = Toml.resolveMut doc ptr ∨
      ((Gen.toml.resolve_mut doc ptr).isPanic = true ∧ (Toml.resolveMut doc ptr).isPanic = true) := by
  have h := resolve_mut_toml_loop ptr.length ptr doc [] 0 0 (ptr.length + 1) rfl (by omega)
  unfold Gen.toml.resolve_mut Toml.resolveMut
  cases hm : Toml.resolveMutLoop ptr doc 0 0 [] with
  | ok r =>
    rw [hm] at h; obtain ⟨p, o, k, hg⟩ := h
    left; simp [hg]
  | err e => rw [hm] at h; left; simp [WalkAgrees] at h; simp [h]
  | panic m =>
    rw [hm] at h; obtain ⟨m', hg⟩ := h
    right; simp [hg, Res.isPanic]

end Jp.Tie
