import Jp.Gen.Rs.CmpPointerPointerBuf
import Jp.Model.Glue
/-
  Jp.Tie.CmpPointerPointerBuf — `impl PartialOrd<PointerBuf> for Pointer`: `partial_cmp` regenerated from `src/pointer.rs` compares the two texts — the model's `strPartialCmp`. (DESIGN §16)
-/
namespace Jp.Tie
open Jp

theorem cmp_CmpPointerPointerBuf_eq (a b : Bytes) : Gen.cmp.partial_cmp_Pointer_PointerBuf a b = strPartialCmp a b := rfl

end Jp.Tie
