import Jp.Tie.IsRoot
import Jp.Tie.Count
import Jp.Tie.Back
import Jp.Tie.Front
import Jp.Tie.SplitFront
import Jp.Tie.SplitAt
import Jp.Tie.SplitBack
import Jp.Tie.Parent
import Jp.Tie.StripSuffix
import Jp.Tie.StripPrefix
import Jp.Tie.EndsWith
import Jp.Tie.StartsWith
import Jp.Tie.Intersection
import Jp.Props.C12
import Jp.Props.C13
/-
  Jp.Tie.TransportPointer — C12 (splits) and C13 (prefix / suffix / intersection) theorems restated about the
  `Pointer` methods regenerated from the current `src/pointer.rs` (`Jp.Gen.Pointer.*`), DESIGN §16.
-/
namespace Jp.Tie
open Jp Jp.Spec

/-- C13: the extracted `starts_with` holds exactly for leading token sub-lists, and never panics -/
theorem gen_starts_with_iff (p q : Bytes) (hp : validPtr p = true) (hq : validPtr q = true) :
    Gen.Pointer.starts_with p q = .ok true ↔ tokens q <+: tokens p := by
  rcases starts_with_eq p q with h | ⟨h1, h2⟩
  · rw [h]; exact C13.startsWith_iff p q hp hq
  · exfalso
    obtain ⟨b, hb⟩ := C13.startsWith_no_panic p q hp hq
    rw [hb] at h2; simp [Res.isPanic] at h2

/-- C13: the extracted `strip_prefix` removes exactly a leading token sub-list -/
theorem gen_strip_prefix_iff (p q r : Bytes) (hp : validPtr p = true) (hq : validPtr q = true) :
    Gen.Pointer.strip_prefix p q = some r ↔ (validPtr r = true ∧ tokens p = tokens q ++ tokens r) := by
  rw [strip_prefix_eq]; exact C13.stripPrefix_iff p q r hp hq

theorem gen_strip_suffix_iff (p q r : Bytes) (hp : validPtr p = true) (hq : validPtr q = true) :
    Gen.Pointer.strip_suffix p q = some r ↔ (validPtr r = true ∧ tokens p = tokens r ++ tokens q) := by
  rw [strip_suffix_eq]; exact C13.stripSuffix_iff p q r hp hq

theorem gen_ends_with_iff (p q : Bytes) (hp : validPtr p = true) (hq : validPtr q = true) :
    Gen.Pointer.ends_with p q = true ↔ ((q = [] ∧ p = []) ∨ (q ≠ [] ∧ tokens q <:+ tokens p)) := by
  rw [ends_with_eq]; exact C13.endsWith_iff p q hp hq

/-- C13: the extracted `intersection` is the longest common leading token list -/
theorem gen_intersection_lcp (p q : Bytes) (hp : validPtr p = true) (hq : validPtr q = true) :
    Gen.Pointer.intersection p q = ofToks (lcp (tokens p) (tokens q)) := by
  rw [intersection_eq]; exact C13.intersection_lcp p q hp hq

theorem gen_intersection_comm (p q : Bytes) (hp : validPtr p = true) (hq : validPtr q = true) :
    Gen.Pointer.intersection p q = Gen.Pointer.intersection q p := by
  rw [intersection_eq, intersection_eq]; exact C13.intersection_comm p q hp hq

/-- C12: the extracted `split_at(k)` succeeds exactly when byte `k` is a separator -/
theorem gen_split_at_iff (p : Bytes) (k : Nat) : (Gen.Pointer.split_at p k).isSome = true ↔ p[k]? = some 47 := by
  rw [split_at_eq]; exact C12.splitAt_iff p k

/-- C12: pieces of the extracted `split_at` re-concatenate -/
theorem gen_split_at_concat (p h t : Bytes) (k : Nat) (hs : Gen.Pointer.split_at p k = some (h, t)) : h ++ t = p := by
  rw [split_at_eq] at hs
  unfold splitAt at hs
  split at hs
  · cases hs
  · cases hs; exact List.take_append_drop k p

example : Gen.Pointer.starts_with [47, 102, 111, 111, 98, 97, 114] [47, 102, 111, 111] = .ok false := by decide
example : Gen.Pointer.strip_prefix [47, 102, 111, 111, 98, 97, 114] [47, 102, 111, 111] = none := by decide
example : Gen.Pointer.intersection [47, 97, 47, 98] [47, 97, 47, 99] = [47, 97] := by decide

end Jp.Tie
