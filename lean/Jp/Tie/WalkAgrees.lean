import Jp.Gen.Prelude
/-
  Jp.Tie.WalkAgrees — how a regenerated walk loop's outcome is compared with the model's result.
-/
namespace Jp.Tie
open Jp

/-- agreement of a loop outcome with the model's result: same node and location, same error, or both panic -/
def WalkAgrees (g : Gen.Flow (Res ResolveErr (Loc × Val)) (Bytes × (Loc × Val) × Nat × Nat))
    (m : Res ResolveErr (Loc × Val)) : Prop :=
  match m with
  | .ok r => ∃ p o k, g = .done (p, r, o, k)
  | .err e => g = .ret (.err e)
  | .panic _ => ∃ m', g = .ret (.panic m')

end Jp.Tie
