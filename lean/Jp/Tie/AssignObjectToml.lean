import Jp.Gen.Rs.AssignObjectToml
import Jp.Tie.ExpandToml
import Jp.Lemmas.Toml
import Jp.Tie.IsRoot
/-
  Jp.Tie.AssignObjectToml — `assign::toml::assign_object` regenerated from `src/assign.rs`, by cases on `obj.entry(token.to_string())`:
  occupied and last token — the member is replaced and its old value returned; occupied otherwise — `Continue` with a
  reference to the member and nothing written; vacant — the expansion of the remaining pointer is inserted. (DESIGN §16)
-/
namespace Jp.Tie
open Jp

theorem assign_object_toml_eq (doc : Val) (token rem : Bytes) (loc : Loc) (kvs : List (Bytes × Val)) (src : Val) :
    Gen.toml.assign_object doc token rem (loc, kvs) src =
      match lookup (Token.toString token) kvs with
      | some entry =>
        if isRoot rem then (doc.setAt (loc ++ [Step.key (Token.toString token)]) src, .done (some entry))
        else (doc, .cont (loc ++ [Step.key (Token.toString token)], entry) src)
      | none => (doc.setAt loc (.obj (kvs ++ [(Token.toString token, expand rem src)])), .done none) := by
  simp only [Gen.toml.assign_object, is_root_eq, expand_toml_eq, toml_expand_eq]
  cases lookup (Token.toString token) kvs with
  | none => rfl
  | some entry => by_cases hr : isRoot rem = true <;> simp [hr]

end Jp.Tie
