import Jp.Gen.Rs.ParseErrLabels
import Jp.Tie.ParseErrInvalidEncodingLen
import Jp.Model.Pointer
/-
  Jp.Tie.ParseErrLabels — `ParseError::labels` regenerated from `src/pointer.rs` is the model's `ParseError.label`. (DESIGN §16)
-/
namespace Jp.Tie
open Jp

/-- `<ParseError as Diagnostic>::labels`: always one label, `(complete_offset, invalid_encoding_len)`; its text is not modelled -/
theorem parse_err_labels_eq (e : ParseError) (subject : Bytes) : Gen.ParseError.labels e subject = some (e.label subject) := by
  simp [Gen.ParseError.labels, ParseError.label, parse_err_complete_offset_eq, parse_err_invalid_encoding_len_eq]

end Jp.Tie
