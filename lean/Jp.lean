-- Root of the `Jp` library: model, spec, lemmas and property theorems.
import Jp.Model.Glue
import Jp.Spec.Tree
