import Jp.Model.Glue
import Jp.Model.Toml
import Jp.Model.Iter
import Jp.Spec.Tree
/-
  jpdriver — the model behind the line protocol of /verif/PROTOCOL.md.
  Reads one operation per line on stdin, prints the model's answer (and the spec's, in `spec_*`
  fields) as `key=value` fields. Imports only the import-free model and spec, so it links as a
  `lean_exe`.
-/
open Jp Jp.Spec

/-! ## lexical helpers -/

def hexDigit (n : Nat) : Char := if n < 10 then Char.ofNat (48 + n) else Char.ofNat (87 + n)

def hexOfBytes (b : Bytes) : String :=
  String.ofList (b.flatMap fun x => [hexDigit (x / 16), hexDigit (x % 16)])

def xhex (b : Bytes) : String := "x" ++ hexOfBytes b

def hexVal (c : Char) : Option Nat :=
  if '0' ≤ c ∧ c ≤ '9' then some (c.toNat - 48)
  else if 'a' ≤ c ∧ c ≤ 'f' then some (c.toNat - 87)
  else none

def bytesOfHexChars : List Char → Option Bytes
  | [] => some []
  | [_] => none
  | a :: b :: r => do
    let x ← hexVal a
    let y ← hexVal b
    let rest ← bytesOfHexChars r
    pure ((x * 16 + y) :: rest)

/-- `xHEX` → bytes -/
def parseX (s : String) : Option Bytes :=
  match s.toList with
  | 'x' :: r => bytesOfHexChars r
  | _ => none

def parseNatStr (s : String) : Option Nat := if s.isEmpty then none else s.toNat?

def optStr (o : Option String) : String := match o with | some s => s | none => "none"
def someStr (o : Option String) : String := match o with | some s => s!"some({s})" | none => "none"
def listStr (l : List String) : String := "[" ++ ",".intercalate l ++ "]"
def boolStr (b : Bool) : String := if b then "1" else "0"

/-! ## documents -/

partial def parseDocChars : List Char → Option (Val × List Char)
  | '#' :: r =>
    let atom := r.takeWhile (fun c => c ≠ ',' ∧ c ≠ ']' ∧ c ≠ '}')
    let rest := r.dropWhile (fun c => c ≠ ',' ∧ c ≠ ']' ∧ c ≠ '}')
    if atom.isEmpty then none else some (.scalar (atom.map Char.toNat), rest)
  | '[' :: ']' :: r => some (.arr [], r)
  | '[' :: r =>
    let rec elems (cs : List Char) (acc : List Val) : Option (List Val × List Char) :=
      match parseDocChars cs with
      | some (v, ',' :: r') => elems r' (v :: acc)
      | some (v, ']' :: r') => some ((v :: acc).reverse, r')
      | _ => none
    (elems r []).map fun (xs, r') => (.arr xs, r')
  | '{' :: '}' :: r => some (.obj [], r)
  | '{' :: r =>
    let rec members (cs : List Char) (acc : List (Bytes × Val)) : Option (List (Bytes × Val) × List Char) :=
      let keyc := cs.takeWhile (· ≠ ':')
      match bytesOfHexChars keyc, cs.dropWhile (· ≠ ':') with
      | some k, ':' :: r1 =>
        match parseDocChars r1 with
        | some (v, ',' :: r') => members r' ((k, v) :: acc)
        | some (v, '}' :: r') => some (((k, v) :: acc).reverse, r')
        | _ => none
      | _, _ => none
    (members r []).map fun (kvs, r') => (.obj kvs, r')
  | _ => none

def parseDoc (s : String) : Option Val :=
  match parseDocChars s.toList with
  | some (v, []) => some v
  | _ => none

def insertSorted (kv : Bytes × String) : List (Bytes × String) → List (Bytes × String)
  | [] => [kv]
  | x :: r => if lexCmp kv.1 x.1 == .lt then kv :: x :: r else x :: insertSorted kv r

partial def docStr : Val → String
  | .scalar a => "#" ++ String.ofList (a.map Char.ofNat)
  | .arr xs => "[" ++ ",".intercalate (xs.map docStr) ++ "]"
  | .obj kvs =>
    let sorted := (kvs.map fun (k, v) => (k, docStr v)).foldl (fun acc kv => insertSorted kv acc) []
    "{" ++ ",".intercalate (sorted.map fun (k, s) => hexOfBytes k ++ ":" ++ s) ++ "}"

def locStr (l : Loc) : String :=
  "loc(" ++ ",".intercalate (l.map fun
    | .key k => "k" ++ hexOfBytes k
    | .idx i => "i" ++ toString i) ++ ")"

def viewStr (sp : Span) : String :=
  let len := sp.2 - sp.1
  if len = 0 then "view(_,0)" else s!"view({sp.1},{len})"

/-! ## printing of results -/

def parseErrStr : ParseError → String
  | .noLeadingSlash => "err(nls)"
  | .invalidEncoding po so _ => s!"err(enc,{po},{so})"

def doorStr {ε} (f : ε → String) : Res ε Bytes → String
  | .ok t => s!"ok({xhex t})"
  | .err e => f e
  | .panic _ => "panic"

def pieStr : ParseIndexError → String
  | .invalidIntegerEmpty => "ii(empty)"
  | .invalidIntegerOverflow => "ii(overflow)"
  | .leadingZeros => "lz"
  | .invalidCharacter _ o => s!"ic({o})"

def indexResStr : Res ParseIndexError Index → String
  | .ok (.num n) => s!"ok(num,{n})"
  | .ok .next => "ok(next)"
  | .err .invalidIntegerEmpty => "err(ii,empty)"
  | .err .invalidIntegerOverflow => "err(ii,overflow)"
  | .err .leadingZeros => "err(lz)"
  | .err (.invalidCharacter _ o) => s!"err(ic,{o})"
  | .panic _ => "panic"

def oobResStr : Res OobErr Nat → String
  | .ok k => s!"ok({k})"
  | .err e => s!"err({e.length},{e.index})"
  | .panic _ => "panic"

def spanOptStr : Res Unit (Option Span) → String
  | .ok none => "none"
  | .ok (some sp) => s!"some({viewStr sp})"
  | _ => "panic"

def decB (t : Bytes) : Bytes := (Token.decoded t).bytes
def newB (s : Bytes) : Bytes := (Token.new s).bytes

/-- the accessor fields shared by `from_tokens` and `ptr_view` -/
def accessorFields (text : Bytes) : String :=
  let toks := Tokens.collect text        -- the `Tokens` iterator state machine (= `tokens text`, C04.tokens_iter_eq)
  let n := count text
  let gets := (List.range (n + 2)).map fun i => optStr ((getToken text i).map fun t => xhex (decB t))
  let comps := (Components.collect text).map fun
    | .root => "root"
    | .token t => xhex (decB t)
  s!"text={xhex text} toks={listStr (toks.map fun t => xhex (decB t))} encs={listStr (toks.map xhex)} " ++
  s!"count={n} first={optStr ((front text).map fun t => xhex (decB t))} " ++
  s!"last={optStr ((back text).map fun t => xhex (decB t))} gets={listStr gets} comps={listStr comps} " ++
  s!"is_root={boolStr (isRoot text)} len={text.length}"

def kindOfResolveErr : ResolveErr → String
  | .failedToParseIndex .. => "parse"
  | .outOfBounds .. => "oob"
  | .notFound .. => "notfound"
  | .unreachable .. => "unreachable"

def payloadOfResolveErr : ResolveErr → String
  | .failedToParseIndex _ _ s => pieStr s
  | .outOfBounds _ _ s => s!"oob({s.index},{s.length})"
  | _ => "none"

def kindOfAssignErr : AssignErr → String
  | .failedToParseIndex .. => "parse"
  | .outOfBounds .. => "oob"

def payloadOfAssignErr : AssignErr → String
  | .failedToParseIndex _ _ s => pieStr s
  | .outOfBounds _ _ s => s!"oob({s.index},{s.length})"

def labelStr : Option (Nat × Nat) → String
  | some (o, l) => s!"({o},{l})"
  | none => "none"

/-- `pos off pl label gp sa` for a failed walk on pointer `p` -/
def locateFields (p : Bytes) (pos off : Nat) (pl : String) (label : Option (Nat × Nat)) : String :=
  let gp := optStr ((getToken p pos).map xhex)
  let sa := match splitAt p off with
    | some (h, t) => s!"some({xhex h},{xhex t})"
    | none => "none"
  s!"pos={pos} off={off} pl={pl} label={labelStr label} gp={gp} sa={sa}"

def noLocateFields : String := "pos=none off=none pl=none label=none gp=none sa=none"

def walkKindStr : WalkKind → String
  | .unreachable => "unreachable"
  | .notFound => "notfound"
  | .parse => "parse"
  | .oob => "oob"

def resolveRStr : Res ResolveErr (Loc × Val) → String
  | .ok (l, _) => s!"ok({locStr l})"
  | .err e => s!"err({kindOfResolveErr e})"
  | .panic _ => "panic"

def specWalkStr : Res (Nat × WalkKind) (Loc × Val) → String
  | .ok (l, _) => s!"ok({locStr l})"
  | .err (_, k) => s!"err({walkKindStr k})"
  | .panic _ => "panic"

def resolveLine (res : Res ResolveErr (Loc × Val)) (doc : Val) (p : Bytes) : String :=
  let val := match res with | .ok (_, v) => docStr v | _ => "none"
  let loc := match res with
    | .err e => locateFields p e.position e.offset (payloadOfResolveErr e) (e.label p)
    | _ => noLocateFields
  s!"r={resolveRStr res} val={val} {loc} spec_r={specWalkStr (walk doc (tokens p))}"

def assignRStr : Res AssignErr (Option Val) → String
  | .ok none => "ok(none)"
  | .ok (some v) => s!"ok(some({docStr v}))"
  | .err e => s!"err({kindOfAssignErr e})"
  | .panic _ => "panic"

def specAssignRStr : Res WalkKind (Val × Option Val) → String
  | .ok (_, none) => "ok(none)"
  | .ok (_, some v) => s!"ok(some({docStr v}))"
  | .err k => s!"err({walkKindStr k})"
  | .panic _ => "panic"

def deleteRStr : Res Unit (Option Val) → String
  | .ok none => "none"
  | .ok (some v) => s!"some({docStr v})"
  | _ => "panic"

def backendOf (s : String) : Option Backend :=
  if s = "json" then some .json else if s = "toml" then some .toml else none

def writeRStr : Res ResolveErr Unit → String
  | .ok _ => "ok"
  | .err e => s!"err({kindOfResolveErr e})"
  | .panic _ => "panic"

/-! ## the separately written json / toml copies (the model mirrors both; `Jp.C09.toml_*_eq` proves them equal) -/

def resolveB : Backend → Val → Bytes → Res ResolveErr (Loc × Val)
  | .json => resolve
  | .toml => Toml.resolve
def resolveMutB : Backend → Val → Bytes → Res ResolveErr (Loc × Val)
  | .json => resolveMut
  | .toml => Toml.resolveMut
def writeThroughB : Backend → Val → Bytes → Val → Val × Res ResolveErr Unit
  | .json => writeThrough
  | .toml => Toml.writeThrough
def assignB : Backend → Val → Bytes → Val → Val × Res AssignErr (Option Val)
  | .json => assign
  | .toml => Toml.assign
def deleteB : Backend → Val → Bytes → Val × Res Unit (Option Val)
  | .json => delete .json
  | .toml => Toml.delete

/-! ## histories -/

def parseBufStep (s : String) : Option BufOp :=
  match s.splitOn "@" with
  | ["pf", "raw", t] => (parseX t).map fun b => .pushFront (newB b)
  | ["pf", "enc", t] => (parseX t).map .pushFront
  | ["pb", "raw", t] => (parseX t).map fun b => .pushBack (newB b)
  | ["pb", "enc", t] => (parseX t).map .pushBack
  | ["pof"] => some .popFront
  | ["pob"] => some .popBack
  | ["ap", q] => (parseX q).map .append
  | ["rp", n, "raw", t] => do
    let i ← parseNatStr n
    let b ← parseX t
    pure (.replace i (newB b))
  | ["rp", n, "enc", t] => do
    let i ← parseNatStr n
    let b ← parseX t
    pure (.replace i b)
  | ["cl"] => some .clear
  | _ => none

def bufRetStr : BufRet → String
  | .unit => "unit"
  | .popped none => "none"
  | .popped (some t) => s!"some({xhex t})"
  | .replaced (.ok none) => "ok(none)"
  | .replaced (.ok (some t)) => s!"ok(some({xhex t}))"
  | .replaced (.err e) => s!"err({e.index},{e.count})"
  | .replaced (.panic _) => "panic"

inductive TreeOp where
  | assign (p : Bytes) (v : Val)
  | delete (p : Bytes)
  | resolve (p : Bytes)
  | write (p : Bytes) (v : Val)

def parseTreeStep (s : String) : Option TreeOp :=
  match s.splitOn "@" with
  | ["as", p, d] => do
    let p ← parseX p
    let v ← parseDoc d
    pure (.assign p v)
  | ["de", p] => (parseX p).map .delete
  | ["re", p] => (parseX p).map .resolve
  | ["wr", p, d] => do
    let p ← parseX p
    let v ← parseDoc d
    pure (.write p v)
  | _ => none

def treeStep (b : Backend) (doc : Val) : TreeOp → Val × String
  | .assign p v => let (d, r) := assignB b doc p v; (d, assignRStr r)
  | .delete p => let (d, r) := deleteB b doc p; (d, deleteRStr r)
  | .resolve p => (doc, resolveRStr (resolveB b doc p))
  | .write p v => let (d, r) := writeThroughB b doc p v; (d, writeRStr r)

/-- the same step on the reference tree store (`assignSpec`, `deleteSpec`, `walk`, `writeSpec`) -/
def specTreeStep (b : Backend) (doc : Val) : TreeOp → Val × String
  | .assign p v =>
    match assignSpec doc (tokens p) v with
    | .ok (d, r) => (d, specAssignRStr (.ok (d, r)))
    | .err k => (doc, s!"err({walkKindStr k})")
    | .panic _ => (doc, "panic")
  | .delete p => let (d, r) := deleteSpec b doc (tokens p); (d, someStr (r.map docStr))
  | .resolve p => (doc, specWalkStr (walk doc (tokens p)))
  | .write p v =>
    match walk doc (tokens p) with
    | .ok (l, _) => (doc.setAt l v, "ok")
    | .err (_, k) => (doc, s!"err({walkKindStr k})")
    | .panic _ => (doc, "panic")

/-! ## ranges -/

def parseBound (s : String) : Option Bound :=
  match s.splitOn ":" with
  | ["in", n] => (parseNatStr n).map .included
  | ["ex", n] => (parseNatStr n).map .excluded
  | ["un"] => some .unbounded
  | _ => none

def specRangeStr : Option (Nat × Nat) → String
  | some (a, b) => s!"some({a},{b})"
  | none => "none"

/-- the view the token range denotes: the offsets of tokens `a` and `b` -/
def specViewStr (p : Bytes) : Option (Nat × Nat) → String
  | some (a, b) => s!"some({viewStr (off (tokens p) a, off (tokens p) b)})"
  | none => "none"

def getLine (p : Bytes) (range : String) : Option String :=
  let n := count p
  match range.splitOn "@" with
  | ["tok", i] => (parseNatStr i).map fun i =>
      s!"r={someStr ((getToken p i).map xhex)} spec_r={someStr ((tokens p)[i]?.map xhex)}"
  | ["r", a, b] => do
    let a ← parseNatStr a
    let b ← parseNatStr b
    pure s!"r={spanOptStr (getRange p a b)} spec_r={specRangeStr (rangeSpec n a b)} spec_view={specViewStr p (rangeSpec n a b)}"
  | ["rf", a] => (parseNatStr a).map fun a =>
      s!"r={spanOptStr (getRangeFrom p a)} spec_r={specRangeStr (rangeFromSpec n a)} spec_view={specViewStr p (rangeFromSpec n a)}"
  | ["rt", b] => (parseNatStr b).map fun b =>
      s!"r={spanOptStr (getRangeTo p b)} spec_r={specRangeStr (rangeToSpec n b)} spec_view={specViewStr p (rangeToSpec n b)}"
  | ["ri", a, b] => do
    let a ← parseNatStr a
    let b ← parseNatStr b
    pure s!"r={spanOptStr (getRangeIncl p a b)} spec_r={specRangeStr (rangeInclSpec n a b)} spec_view={specViewStr p (rangeInclSpec n a b)}"
  | ["rti", b] => (parseNatStr b).map fun b =>
      s!"r={spanOptStr (getRangeToIncl p b)} spec_r={specRangeStr (rangeToInclSpec n b)} spec_view={specViewStr p (rangeToInclSpec n b)}"
  | ["full"] => some s!"r={spanOptStr (getRangeFull p)} spec_r={specRangeStr (rangeFullSpec n)} spec_view={specViewStr p (rangeFullSpec n)}"
  | ["bb", lo, hi] => do
    let lo ← parseBound lo
    let hi ← parseBound hi
    pure s!"r={spanOptStr (getBounds p lo hi)} spec_r={specRangeStr (boundsSpec n lo hi)} spec_view={specViewStr p (boundsSpec n lo hi)}"
  | _ => none

/-! ## comparisons -/

def aggEq (a b : Bytes) : String :=
  let bits := eqImpls.map fun (_, f) => f a b
  if bits.all id then "1" else if bits.all (!·) then "0"
  else "mixed:" ++ String.ofList (bits.map fun x => if x then '1' else '0')

def ordChar : Option Ordering → Char
  | some .lt => '<'
  | some .eq => '='
  | some .gt => '>'
  | none => '?'

def aggOrd (a b : Bytes) : String :=
  let cs := ordImpls.map fun (_, f) => ordChar (f a b)
  if cs.all (· == '<') then "lt" else if cs.all (· == '=') then "eq" else if cs.all (· == '>') then "gt"
  else "mixed:" ++ String.ofList cs

/-! ## integers for `tok_int` -/

def parseIntStr (s : String) : Option Int :=
  match s.toList with
  | '-' :: r => (parseNatStr (String.ofList r)).map fun n => -(n : Int)
  | _ => (parseNatStr s).map fun n => (n : Int)

def intRange (ty : String) : Option (Int × Int) :=
  let u (k : Nat) : Option (Int × Int) := some (0, (2 : Int) ^ k - 1)
  let i (k : Nat) : Option (Int × Int) := some (-((2 : Int) ^ (k - 1)), (2 : Int) ^ (k - 1) - 1)
  match ty with
  | "u8" => u 8 | "u16" => u 16 | "u32" => u 32 | "u64" => u 64 | "u128" => u 128 | "usize" => u 64
  | "i8" => i 8 | "i16" => i 16 | "i32" => i 32 | "i64" => i 64 | "i128" => i 128 | "isize" => i 64
  | _ => none

/-! ## dispatch -/

def contains (s : Bytes) (b : Nat) : Bool := s.contains b

def step (line : String) : String :=
  let bad := "bad_op=1"
  let fields := line.trimAscii.toString.splitOn " "
  let r : Option String :=
    match fields with
    | ["parse", s] => (parseX s).map fun s =>
      let d1 := Pointer.parse s
      let d2 : Res ParseError Bytes := match PointerBuf.parse s with
        | .ok t => .ok t | .err (e, _) => .err e | .panic m => .panic m
      let rsubj := match PointerBuf.parse s with | .err (_, subj) => xhex subj | _ => "none"
      let de : DoorErr → String := fun | .parse e => parseErrStr e | .de => "err(de)"
      let d8 := match Pointer.fromStatic s with | .ok t => s!"ok({xhex t})" | _ => "panic"
      let (co, src, label) := match d1 with
        | .err e =>
          (toString e.completeOffset,
           (match e with | .invalidEncoding _ _ .tilde => "tilde" | .invalidEncoding _ _ .slash => "slash" | _ => "none"),
           labelStr (some (e.label s)))
        | _ => ("none", "none", "none")
      s!"d1={doorStr parseErrStr d1} d2={doorStr parseErrStr d2} d3={doorStr parseErrStr (PointerBuf.fromStr s)} " ++
      s!"d4={doorStr parseErrStr (PointerBuf.tryFromStr s)} d5={doorStr parseErrStr (PointerBuf.tryFromString s)} " ++
      s!"d6={doorStr de (Pointer.deserializeBorrowed s)} d7={doorStr de (PointerBuf.deserialize s)} d8={d8} " ++
      s!"co={co} src={src} label={label} rsubj={rsubj} spec_d={doorStr parseErrStr (parseSpec s)}"
    | ["tok_new", s] => (parseX s).map fun s =>
      let t := newB s
      s!"enc={xhex t} dec={xhex (decB t)} spec_enc={xhex (enc s)} spec_dec={xhex (dec (enc s))}"
    | ["from_encoded", s] => (parseX s).map fun s =>
      let r := match Token.fromEncoded s with
        | .ok t => s!"ok({xhex t},{xhex (decB t)},{xhex (newB (decB t))})"
        | .err ⟨o, .slash⟩ => s!"err(slash,{o})"
        | .err ⟨o, .tilde⟩ => s!"err(tilde,{o})"
        | .panic _ => "panic"
      let sd := if validTok s then xhex (dec s) else "none"
      s!"r={r} spec_valid={boolStr (validTok s)} spec_dec={sd} spec_firstbad={optStr ((firstBad s).map toString)}"
    | ["index_str", s] => (parseX s).map fun s =>
      let r := Index.fromStr s
      let disp := match r with | .ok i => xhex i.display | _ => "none"
      s!"r={indexResStr r} disp={disp} spec_r={indexResStr (indexSpec s)}"
    | ["index_len", i, n] => do
      let n ← parseNatStr n
      let ix ← match i.splitOn ":" with
        | ["num", k] => (parseNatStr k).map Index.num
        | ["next"] => some Index.next
        | _ => none
      pure s!"fl={oobResStr (ix.forLen n)} fli={oobResStr (ix.forLenIncl n)} flu={ix.forLenUnchecked n}"
    | "from_tokens" :: ts => (ts.mapM parseX).map fun ts =>
      let text := fromTokens (ts.map newB)
      s!"{accessorFields text} spec_text={xhex (ofRaw ts)} spec_toks={listStr (ts.map xhex)}"
    | ["ptr_view", p] => (parseX p).map fun p =>
      s!"{accessorFields p} rt={xhex (fromTokens (tokens p))}"
    | ["with", p, which, t] => do
      let p ← parseX p
      let t ← parseX t
      if which = "lead" then pure s!"text={xhex (withLeadingToken p (newB t))}"
      else if which = "trail" then pure s!"text={xhex (withTrailingToken p (newB t))}"
      else none
    | ["concat", p, q] => do
      let p ← parseX p
      let q ← parseX q
      pure s!"text={xhex (concat p q)}"
    | ["from_token", t] => (parseX t).map fun t => s!"text={xhex (ofToken (newB t))}"
    | ["from_usize", n] => (parseNatStr n).map fun n => s!"text={xhex (ofUsize n)}"
    | "buf_hist" :: p :: steps => do
      let p ← parseX p
      let ops ← steps.mapM parseBufStep
      let (_, outs) := ops.foldl (fun (acc : Bytes × List String) op =>
        let (s', ret) := bufStep acc.1 op
        (s', s!"{bufRetStr ret}|{xhex s'}" :: acc.2)) (p, [])
      let (_, souts) := ops.foldl (fun (acc : List Bytes × List String) op =>
        let (ts', ret) := dequeStep acc.1 op
        (ts', s!"{bufRetStr ret}|{xhex (ofToks ts')}" :: acc.2)) (tokens p, [])
      pure ("steps=" ++ ";".intercalate outs.reverse ++ " spec_steps=" ++ ";".intercalate souts.reverse)
    | ["split_front", p] => (parseX p).map fun p =>
      let sp := match tokens p with
        | [] => "none"
        | t :: _ => s!"some({xhex t},{viewStr (1 + t.length, p.length)})"
      "r=" ++ someStr ((splitFrontV p).map fun (t, v) => s!"{xhex t},{viewStr v}") ++ " spec_r=" ++ sp
    | ["split_back", p] => (parseX p).map fun p =>
      let ts := tokens p
      let sp := match ts.getLast? with
        | none => "none"
        | some t => s!"some({viewStr (0, off ts (ts.length - 1))},{xhex t})"
      "r=" ++ someStr ((splitBackV p).map fun (v, t) => s!"{viewStr v},{xhex t}") ++ " spec_r=" ++ sp
    | ["parent", p] => (parseX p).map fun p =>
      let ts := tokens p
      let sp := if ts.isEmpty then "none" else s!"some({viewStr (0, off ts (ts.length - 1))})"
      "r=" ++ someStr ((splitBackV p).map fun (v, _) => viewStr v) ++ " spec_r=" ++ sp
    | ["split_at", p, n] => do
      let p ← parseX p
      let n ← parseNatStr n
      pure ("r=" ++ someStr ((splitAtV p n).map fun (a, b) => s!"{viewStr a},{viewStr b}"))
    | ["get", p, range] => do
      let p ← parseX p
      getLine p range
    | ["rel", p, q] => do
      let p ← parseX p
      let q ← parseX q
      let sw := match ptrStartsWith p q with | .ok b => boolStr b | _ => "panic"
      let tp := tokens p
      let tq := tokens q
      let ssw := tq.isPrefixOf tp
      let sew := (q.isEmpty && p.isEmpty) || (!q.isEmpty && tq.isSuffixOf tp)
      let ssp := if ssw then s!"some({xhex (ofToks (tp.drop tq.length))})" else "none"
      let sss := if tq.isSuffixOf tp then s!"some({xhex (ofToks (tp.take (tp.length - tq.length)))})" else "none"
      pure (s!"sw={sw} ew={boolStr (ptrEndsWith p q)} sp={someStr ((ptrStripPrefix p q).map xhex)} " ++
        s!"ss={someStr ((ptrStripSuffix p q).map xhex)} ix={xhex (intersection p q)} " ++
        s!"ixr={xhex (intersection q p)} cc={xhex (concat p q)} " ++
        s!"spec_sw={boolStr ssw} spec_ew={boolStr sew} spec_sp={ssp} spec_ss={sss} " ++
        s!"spec_ix={xhex (ofToks (lcp tp tq))} spec_cc={xhex (ofToks (tp ++ tq))}")
    | ["rel3", p, q, r] => do
      let p ← parseX p
      let q ← parseX q
      let r ← parseX r
      let l := concat (concat p q) r
      pure s!"cc={xhex l} assoc={boolStr (l == concat p (concat q r))}"
    | ["resolve", b, d, p] => do
      let b ← backendOf b
      let d ← parseDoc d
      let p ← parseX p
      pure (resolveLine (resolveB b d p) d p)
    | ["resolve_mut", b, d, p] => do
      let b ← backendOf b
      let d ← parseDoc d
      let p ← parseX p
      pure (resolveLine (resolveMutB b d p) d p)
    | ["write", b, d, p, v] => do
      let b ← backendOf b
      let d ← parseDoc d
      let p ← parseX p
      let v ← parseDoc v
      let (d', r) := writeThroughB b d p v
      let rb := match resolveB b d' p with
        | .ok (_, x) => docStr x
        | .err e => s!"err({kindOfResolveErr e})"
        | .panic _ => "panic"
      pure s!"r={writeRStr r} doc={docStr d'} rb={rb}"
    | ["assign", b, d, p, v] => do
      let b ← backendOf b
      let d ← parseDoc d
      let p ← parseX p
      let v ← parseDoc v
      let (d', r) := assignB b d p v
      let loc := match r with
        | .err e => locateFields p e.position e.offset (payloadOfAssignErr e) (e.label p)
        | _ => noLocateFields
      let sr := assignSpec d (tokens p) v
      let sdoc := match sr with | .ok (x, _) => docStr x | _ => docStr d
      pure s!"r={assignRStr r} doc={docStr d'} {loc} spec_r={specAssignRStr sr} spec_doc={sdoc}"
    | ["delete", b, d, p] => do
      let b ← backendOf b
      let d ← parseDoc d
      let p ← parseX p
      let (d', r) := deleteB b d p
      let (sd, sr) := deleteSpec b d (tokens p)
      pure s!"r={deleteRStr r} doc={docStr d'} spec_r={someStr (sr.map docStr)} spec_doc={docStr sd}"
    | "tree_hist" :: b :: d :: steps => do
      let b ← backendOf b
      let d ← parseDoc d
      let ops ← steps.mapM parseTreeStep
      let (_, outs) := ops.foldl (fun (acc : Val × List String) op =>
        let (d', ret) := treeStep b acc.1 op
        (d', s!"{ret}|{docStr d'}" :: acc.2)) (d, [])
      let (_, souts) := ops.foldl (fun (acc : Val × List String) op =>
        let (d', ret) := specTreeStep b acc.1 op
        (d', s!"{ret}|{docStr d'}" :: acc.2)) (d, [])
      pure ("steps=" ++ ";".intercalate outs.reverse ++ " spec_steps=" ++ ";".intercalate souts.reverse)
    | ["deep", b, n] =>
      -- harness-only law (`law_deep`: the crate's walks on an N-token pointer use constant stack); the model has nothing
      -- to add beyond accepting the line: its walks are structural recursions, total for every N
      if (b == "json" || b == "toml") && n.toNat?.isSome then some "deep=modelled" else none
    | ["cmp", p, q] => do
      let p ← parseX p
      let q ← parseX q
      let so := match lexCmp p q with | .lt => "lt" | .eq => "eq" | .gt => "gt"
      pure s!"eq={aggEq p q} ord={aggOrd p q} spec_eq={boolStr (p == q)} spec_ord={so}"
    | ["conv", p] => (parseX p).map fun p =>
      let badc := (conversions p).filter (fun (_, t) => t != p)
      let conv := if badc.isEmpty then "ok" else "bad:" ++ ",".intercalate (badc.map (·.1))
      s!"ser={xhex (serialize p)} conv={conv}"
    | ["deser", s] => (parseX s).map fun s =>
      let f : Res DoorErr Bytes → String := fun
        | .ok t => s!"ok({xhex t})" | .err _ => "err" | .panic _ => "panic"
      s!"own={f (PointerBuf.deserialize s)} bor={f (Pointer.deserializeBorrowed s)}"
    | ["tok_int", ty, dec] => do
      let (lo, hi) ← intRange ty
      let v ← parseIntStr dec
      if v < lo ∨ hi < v then none else pure s!"enc={xhex (Token.ofInt v)}"
    | ["zc_ptr", p] => (parseX p).map fun _ => "zc=ok ctl=ok"
    | ["zc_parse", s] => (parseX s).map fun _ => "parse=0 fe=0"
    | ["zc_tok", s] => (parseX s).map fun s =>
      let t := Token.new s
      s!"new={boolStr t.fresh} dec_b={boolStr (Token.decoded t.bytes).fresh} dec_o={boolStr (Token.decoded t.bytes).fresh} new_o={boolStr t.fresh}"
    | _ => none
  match r with
  | some s => s
  | none => bad

partial def loop (hin : IO.FS.Stream) (hout : IO.FS.Stream) : IO Unit := do
  let line ← hin.getLine
  if line.isEmpty then return ()
  hout.putStrLn (step line)
  loop hin hout

def main : IO Unit := do
  let hin ← IO.getStdin
  let hout ← IO.getStdout
  loop hin hout
  hout.flush
