use crate::{PointerBuf, Token};
use alloc::{boxed::Box, string::String, vec::Vec};
use quickcheck::Arbitrary;

impl Arbitrary for Token<'static> {
    fn arbitrary(g: &mut quickcheck::Gen) -> Self {
        Self::new(String::arbitrary(g))
    }

    fn shrink(&self) -> Box<dyn Iterator<Item = Self>> {
        Box::new(self.decoded().into_owned().shrink().map(Self::new))
    }
}

impl Arbitrary for PointerBuf {
    fn arbitrary(g: &mut quickcheck::Gen) -> Self {
        let size = usize::arbitrary(g) % g.size();
        Self::from_tokens((0..size).map(|_| Token::arbitrary(g)).collect::<Vec<_>>())
    }

    fn shrink(&self) -> Box<dyn Iterator<Item = Self>> {
        let tokens: Vec<_> = self.tokens().map(Token::into_owned).collect();
        Box::new((0..self.count()).map(move |i| {
            let subset: Vec<_> = tokens
                .iter()
                .enumerate()
                .filter_map(|(j, t)| (i != j).then_some(t.clone()))
                .collect();
            Self::from_tokens(subset)
        }))
    }
}
