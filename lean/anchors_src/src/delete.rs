//! # Delete values based on JSON Pointers
//!
//! This module provides the [`Delete`] trait which is implemented by types that
//! can internally remove a value based on a JSON Pointer.
//!
//! The rules of deletion are determined by the implementation, with the
//! provided implementations (`"json"` & `"toml"`) operating as follows:
//! - If the [`Pointer`] can be resolved, then the [`Value`](`Delete::Value`) is
//!   deleted and returned as `Some(value)`.
//! - If the [`Pointer`] fails to resolve for any reason, `Ok(None)` is
//!   returned.
//! - If the [`Pointer`] is root, `value` is replaced:
//!     - `"json"` - `serde_json::Value::Null`
//!     - `"toml"` - `toml::Value::Table::Default`
//!
//! This module is enabled by default with the `"delete"` feature flag.
//!
//! ## Usage
//!  Deleting a resolved pointer:
//! ```rust
//! use jsonptr::{Pointer, delete::Delete};
//! use serde_json::json;
//!
//! let mut data = json!({ "foo": { "bar": { "baz": "qux" } } });
//! let ptr = Pointer::from_static("/foo/bar/baz");
//! assert_eq!(data.delete(&ptr), Some("qux".into()));
//! assert_eq!(data, json!({ "foo": { "bar": {} } }));
//! ```
//! Deleting a non-existent Pointer returns `None`:
//! ```rust
//! use jsonptr::{ Pointer, delete::Delete };
//! use serde_json::json;
//!
//! let mut data = json!({});
//! let ptr = Pointer::from_static("/foo/bar/baz");
//! assert_eq!(ptr.delete(&mut data), None);
//! assert_eq!(data, json!({}));
//! ```
//! Deleting a root pointer replaces the value with `Value::Null`:
//! ```rust
//! use jsonptr::{Pointer, delete::Delete};
//! use serde_json::json;
//!
//! let mut data = json!({ "foo": { "bar": "baz" } });
//! let ptr = Pointer::root();
//! assert_eq!(data.delete(&ptr), Some(json!({ "foo": { "bar": "baz" } })));
//! assert!(data.is_null());
//! ```
//!
//! ## Provided implementations
//!
//! | Lang  |     value type      | feature flag | Default |
//! | ----- |: ----------------- :|: ---------- :| ------- |
//! | JSON  | `serde_json::Value` |   `"json"`   |   ✓     |
//! | TOML  |    `toml::Value`    |   `"toml"`   |         |

use crate::Pointer;

/*
░░░░░░░░░░░░░░░░░░░░░░░░░░░░░░░░░░░░░░░░░░░░░░░░░░░░░░░░░░░░░░░░░░░░░░░░░░░░░░░░
╔══════════════════════════════════════════════════════════════════════════════╗
║                                                                              ║
║                                    Delete                                    ║
║                                   ¯¯¯¯¯¯¯¯                                   ║
╚══════════════════════════════════════════════════════════════════════════════╝
░░░░░░░░░░░░░░░░░░░░░░░░░░░░░░░░░░░░░░░░░░░░░░░░░░░░░░░░░░░░░░░░░░░░░░░░░░░░░░░░
*/

/// Delete is implemented by types which can internally remove a value based on
/// a JSON Pointer
pub trait Delete {
    /// The type of value that this implementation can operate on.
    type Value;

    /// Attempts to internally delete a value based upon a [Pointer].
    fn delete(&mut self, ptr: &Pointer) -> Option<Self::Value>;
}

/*
░░░░░░░░░░░░░░░░░░░░░░░░░░░░░░░░░░░░░░░░░░░░░░░░░░░░░░░░░░░░░░░░░░░░░░░░░░░░░░░░
╔══════════════════════════════════════════════════════════════════════════════╗
║                                                                              ║
║                                  json impl                                   ║
║                                 ¯¯¯¯¯¯¯¯¯¯¯                                  ║
╚══════════════════════════════════════════════════════════════════════════════╝
░░░░░░░░░░░░░░░░░░░░░░░░░░░░░░░░░░░░░░░░░░░░░░░░░░░░░░░░░░░░░░░░░░░░░░░░░░░░░░░░
*/

#[cfg(feature = "json")]
mod json {
    use super::Delete;
    use crate::Pointer;
    use core::mem;
    use serde_json::Value;

    impl Delete for Value {
        type Value = Value;
        fn delete(&mut self, ptr: &Pointer) -> Option<Self::Value> {
            let Some((parent_ptr, last)) = ptr.split_back() else {
                // deleting at root
                return Some(mem::replace(self, Value::Null));
            };
            parent_ptr
                .resolve_mut(self)
                .ok()
                .and_then(|parent| match parent {
                    Value::Array(children) => {
                        let idx = last.to_index().ok()?.for_len(children.len()).ok()?;
                        children.remove(idx).into()
                    }
                    Value::Object(children) => children.remove(last.decoded().as_ref()),
                    _ => None,
                })
        }
    }
}

/*
░░░░░░░░░░░░░░░░░░░░░░░░░░░░░░░░░░░░░░░░░░░░░░░░░░░░░░░░░░░░░░░░░░░░░░░░░░░░░░░░
╔══════════════════════════════════════════════════════════════════════════════╗
║                                                                              ║
║                                  toml impl                                   ║
║                                 ¯¯¯¯¯¯¯¯¯¯¯                                  ║
╚══════════════════════════════════════════════════════════════════════════════╝
░░░░░░░░░░░░░░░░░░░░░░░░░░░░░░░░░░░░░░░░░░░░░░░░░░░░░░░░░░░░░░░░░░░░░░░░░░░░░░░░
*/
#[cfg(feature = "toml")]
mod toml {
    use super::Delete;
    use crate::Pointer;
    use core::mem;
    use toml::{Table, Value};

    impl Delete for Value {
        type Value = Value;
        fn delete(&mut self, ptr: &Pointer) -> Option<Self::Value> {
            let Some((parent_ptr, last)) = ptr.split_back() else {
                // deleting at root
                return Some(mem::replace(self, Table::default().into()));
            };
            parent_ptr
                .resolve_mut(self)
                .ok()
                .and_then(|parent| match parent {
                    Value::Array(children) => {
                        let idx = last.to_index().ok()?.for_len(children.len()).ok()?;
                        children.remove(idx).into()
                    }
                    Value::Table(children) => children.remove(last.decoded().as_ref()),
                    _ => None,
                })
        }
    }
}

/*
░░░░░░░░░░░░░░░░░░░░░░░░░░░░░░░░░░░░░░░░░░░░░░░░░░░░░░░░░░░░░░░░░░░░░░░░░░░░░░░░
╔══════════════════════════════════════════════════════════════════════════════╗
║                                                                              ║
║                                    Tests                                     ║
║                                   ¯¯¯¯¯¯¯                                    ║
╚══════════════════════════════════════════════════════════════════════════════╝
░░░░░░░░░░░░░░░░░░░░░░░░░░░░░░░░░░░░░░░░░░░░░░░░░░░░░░░░░░░░░░░░░░░░░░░░░░░░░░░░
*/

#[cfg(test)]
mod tests {
    use super::Delete;
    use crate::Pointer;
    use core::fmt;

    use serde_json::json;
    struct Test<V> {
        data: V,
        ptr: &'static str,
        expected_data: V,
        expected_deleted: Option<V>,
    }
    impl<V> Test<V>
    where
        V: Delete<Value = V> + Clone + PartialEq + fmt::Display + fmt::Debug,
    {
        fn all(tests: impl IntoIterator<Item = Test<V>>) {
            tests.into_iter().enumerate().for_each(|(i, t)| t.run(i));
        }
        fn run(self, _i: usize) {
            let Test {
                mut data,
                ptr,
                expected_data,
                expected_deleted,
            } = self;

            let ptr = Pointer::from_static(ptr);
            let deleted = ptr.delete(&mut data);
            assert_eq!(expected_data, data);
            assert_eq!(expected_deleted, deleted);
        }
    }
    /*
    ╔═══════════════════════════════════════════════════╗
    ║                        json                       ║
    ╚═══════════════════════════════════════════════════╝
    */
    #[test]
    #[cfg(feature = "json")]
    fn delete_json() {
        Test::all([
            // 0
            Test {
                ptr: "/foo",
                data: json!({"foo": "bar"}),
                expected_data: json!({}),
                expected_deleted: Some(json!("bar")),
            },
            // 1
            Test {
                ptr: "/foo/bar",
                data: json!({"foo": {"bar": "baz"}}),
                expected_data: json!({"foo": {}}),
                expected_deleted: Some(json!("baz")),
            },
            // 2
            Test {
                ptr: "/foo/bar",
                data: json!({"foo": "bar"}),
                expected_data: json!({"foo": "bar"}),
                expected_deleted: None,
            },
            // 3
            Test {
                ptr: "/foo/bar",
                data: json!({"foo": {"bar": "baz"}}),
                expected_data: json!({"foo": {}}),
                expected_deleted: Some(json!("baz")),
            },
            // 4
            Test {
                ptr: "/foo/bar/0",
                data: json!({"foo": {"bar": ["baz", "qux"]}}),
                expected_data: json!({"foo": {"bar": ["qux"]}}),
                expected_deleted: Some(json!("baz")),
            },
            // 5
            Test {
                ptr: "/foo/0",
                data: json!({"foo": "bar"}),
                expected_data: json!({"foo": "bar"}),
                expected_deleted: None,
            },
            // 6
            Test {
                ptr: "/foo/bar/0/baz",
                data: json!({"foo": { "bar": [{"baz": "qux", "remaining": "field"}]}}),
                expected_data: json!({"foo": { "bar": [{"remaining": "field"}]} }),
                expected_deleted: Some(json!("qux")),
            },
            // 7
            // issue #18 - unable to delete root token https://github.com/chanced/jsonptr/issues/18
            Test {
                ptr: "/Example",
                data: json!({"Example": 21, "test": "test"}),
                expected_data: json!({"test": "test"}),
                expected_deleted: Some(json!(21)),
            },
            Test {
                ptr: "",
                data: json!({"Example": 21, "test": "test"}),
                expected_data: json!(null),
                expected_deleted: Some(json!({"Example": 21, "test": "test"})),
            },
        ]);
    }
    /*
    ╔═══════════════════════════════════════════════════╗
    ║                        toml                       ║
    ╚═══════════════════════════════════════════════════╝
    */
    #[test]
    #[cfg(feature = "toml")]
    fn delete_toml() {
        use toml::{toml, Table, Value};

        Test::all([
            // 0
            Test {
                data: toml! {"foo" = "bar"}.into(),
                ptr: "/foo",
                expected_data: Value::Table(Table::new()),
                expected_deleted: Some("bar".into()),
            },
            // 1
            Test {
                data: toml! {"foo" = {"bar" = "baz"}}.into(),
                ptr: "/foo/bar",
                expected_data: toml! {"foo" = {}}.into(),
                expected_deleted: Some("baz".into()),
            },
            // 2
            Test {
                data: toml! {"foo" = "bar"}.into(),
                ptr: "/foo/bar",
                expected_data: toml! {"foo" = "bar"}.into(),
                expected_deleted: None,
            },
            // 3
            Test {
                data: toml! {"foo" = {"bar" = "baz"}}.into(),
                ptr: "/foo/bar",
                expected_data: toml! {"foo" = {}}.into(),
                expected_deleted: Some("baz".into()),
            },
            // 4
            Test {
                data: toml! {"foo" = {"bar" = ["baz", "qux"]}}.into(),
                ptr: "/foo/bar/0",
                expected_data: toml! {"foo" = {"bar" = ["qux"]}}.into(),
                expected_deleted: Some("baz".into()),
            },
            // 5
            Test {
                data: toml! {"foo" = "bar"}.into(),
                ptr: "/foo/0",
                expected_data: toml! {"foo" = "bar"}.into(),
                expected_deleted: None,
            },
            // 6
            Test {
                data: toml! {"foo" = { "bar" = [{"baz" = "qux", "remaining" = "field"}]}}.into(),
                ptr: "/foo/bar/0/baz",
                expected_data: toml! {"foo" = { "bar" = [{"remaining" = "field"}]} }.into(),
                expected_deleted: Some("qux".into()),
            },
            // 7
            // issue #18 - unable to delete root token https://github.com/chanced/jsonptr/issues/18
            Test {
                data: toml! {"Example" = 21 "test" = "test"}.into(),
                ptr: "/Example",
                expected_data: toml! {"test" = "test"}.into(),
                expected_deleted: Some(21.into()),
            },
        ]);
    }
}
