//! Abstract index representation for RFC 6901.
//!
//! [RFC 6901](https://datatracker.ietf.org/doc/html/rfc6901) defines two valid
//! ways to represent array indices as Pointer tokens: non-negative integers,
//! and the character `-`, which stands for the index after the last existing
//! array member. While attempting to use `-` to resolve an array value will
//! always be out of bounds, the token can be useful when paired with utilities
//! which can mutate a value, such as this crate's [`assign`](crate::assign)
//! functionality or JSON Patch [RFC
//! 6902](https://datatracker.ietf.org/doc/html/rfc6902), as it provides a way
//! to express where to put the new element when extending an array.
//!
//! While this crate doesn't implement RFC 6902, it still must consider
//! non-numerical indices as valid, and provide a mechanism for manipulating
//! them. This is what this module provides.
//!
//! The main use of the `Index` type is when resolving a [`Token`] instance as a
//! concrete index for a given array length:
//!
//! ```
//! # use jsonptr::{index::Index, Token};
//! assert_eq!(Token::new("1").to_index(), Ok(Index::Num(1)));
//! assert_eq!(Token::new("-").to_index(), Ok(Index::Next));
//! assert!(Token::new("a").to_index().is_err());
//!
//! assert_eq!(Index::Num(0).for_len(1), Ok(0));
//! assert!(Index::Num(1).for_len(1).is_err());
//! assert!(Index::Next.for_len(1).is_err());
//!
//! assert_eq!(Index::Num(1).for_len_incl(1), Ok(1));
//! assert_eq!(Index::Next.for_len_incl(1), Ok(1));
//! assert!(Index::Num(2).for_len_incl(1).is_err());
//!
//! assert_eq!(Index::Num(42).for_len_unchecked(30), 42);
//! assert_eq!(Index::Next.for_len_unchecked(30), 30);
//! ```

use crate::Token;
use alloc::string::String;
use core::{fmt, num::ParseIntError, str::FromStr};

/// Represents an abstract index into an array.
///
/// If provided an upper bound with [`Self::for_len`] or [`Self::for_len_incl`],
/// will produce a concrete numerical index.
#[derive(Debug, Clone, Copy, PartialEq, Eq, PartialOrd, Ord, Hash)]
pub enum Index {
    /// A non-negative integer value
    Num(usize),
    /// The `-` token, the position of the next would-be item in the array
    Next,
}

impl Index {
    /// Bounds the index for a given array length (exclusive).
    ///
    /// The upper range is exclusive, so only indices that are less than
    /// the given length will be accepted as valid. This ensures that
    /// the resolved numerical index can be used to access an existing array
    /// element.
    ///
    /// [`Self::Next`], by consequence, is always considered *invalid*, since
    /// it resolves to the array length itself.
    ///
    /// See also [`Self::for_len_incl`] for an alternative if you wish to accept
    /// [`Self::Next`] (or its numerical equivalent) as valid.
    ///
    /// # Examples
    ///
    /// ```
    /// # use jsonptr::index::Index;
    /// assert_eq!(Index::Num(0).for_len(1), Ok(0));
    /// assert!(Index::Num(1).for_len(1).is_err());
    /// assert!(Index::Next.for_len(1).is_err());
    /// ```
    /// # Errors
    /// Returns [`OutOfBoundsError`] if the index is out of bounds.
    pub fn for_len(&self, length: usize) -> Result<usize, OutOfBoundsError> {
        match *self {
            Self::Num(index) if index < length => Ok(index),
            Self::Num(index) => Err(OutOfBoundsError { length, index }),
            Self::Next => Err(OutOfBoundsError {
                length,
                index: length,
            }),
        }
    }

    /// Bounds the index for a given array length (inclusive).
    ///
    /// The upper range is inclusive, so an index pointing to the position
    /// _after_ the last element will be considered valid. Be careful when using
    /// the resulting numerical index for accessing an array.
    ///
    /// [`Self::Next`] is always considered valid.
    ///
    /// See also [`Self::for_len`] for an alternative if you wish to ensure that
    /// the resolved index can be used to access an existing array element.
    ///
    /// # Examples
    ///
    /// ```
    /// # use jsonptr::index::Index;
    /// assert_eq!(Index::Num(1).for_len_incl(1), Ok(1));
    /// assert_eq!(Index::Next.for_len_incl(1), Ok(1));
    /// assert!(Index::Num(2).for_len_incl(1).is_err());
    /// ```
    ///
    /// # Errors
    /// Returns [`OutOfBoundsError`] if the index is out of bounds.
    pub fn for_len_incl(&self, length: usize) -> Result<usize, OutOfBoundsError> {
        match *self {
            Self::Num(index) if index <= length => Ok(index),
            Self::Num(index) => Err(OutOfBoundsError { length, index }),
            Self::Next => Ok(length),
        }
    }

    /// Resolves the index for a given array length.
    ///
    /// No bound checking will take place. If you wish to ensure the
    /// index can be used to access an existing element in the array, use
    /// [`Self::for_len`] - or use [`Self::for_len_incl`] if you wish to accept
    /// [`Self::Next`] as valid as well.
    ///
    /// # Examples
    ///
    /// ```
    /// # use jsonptr::index::Index;
    /// assert_eq!(Index::Num(42).for_len_unchecked(30), 42);
    /// assert_eq!(Index::Next.for_len_unchecked(30), 30);
    ///
    /// // no bounds checks
    /// assert_eq!(Index::Num(34).for_len_unchecked(40), 34);
    /// assert_eq!(Index::Next.for_len_unchecked(34), 34);
    /// ```
    pub fn for_len_unchecked(&self, length: usize) -> usize {
        match *self {
            Self::Num(idx) => idx,
            Self::Next => length,
        }
    }
}

impl fmt::Display for Index {
    fn fmt(&self, f: &mut core::fmt::Formatter<'_>) -> core::fmt::Result {
        match *self {
            Self::Num(index) => write!(f, "{index}"),
            Self::Next => f.write_str("-"),
        }
    }
}

impl From<usize> for Index {
    fn from(value: usize) -> Self {
        Self::Num(value)
    }
}

impl FromStr for Index {
    type Err = ParseIndexError;

    fn from_str(s: &str) -> Result<Self, Self::Err> {
        if s == "-" {
            Ok(Index::Next)
        } else if s.starts_with('0') && s != "0" {
            Err(ParseIndexError::LeadingZeros)
        } else {
            s.chars().position(|c| !c.is_ascii_digit()).map_or_else(
                || {
                    s.parse::<usize>()
                        .map(Index::Num)
                        .map_err(ParseIndexError::from)
                },
                |offset| {
                    // this comes up with the `+` sign which is valid for
                    // representing a `usize` but not allowed in RFC 6901 array
                    // indices
                    Err(ParseIndexError::InvalidCharacter(InvalidCharacterError {
                        source: String::from(s),
                        offset,
                    }))
                },
            )
        }
    }
}

impl TryFrom<&Token<'_>> for Index {
    type Error = ParseIndexError;

    fn try_from(value: &Token) -> Result<Self, Self::Error> {
        Index::from_str(value.encoded())
    }
}

impl TryFrom<&str> for Index {
    type Error = ParseIndexError;

    fn try_from(value: &str) -> Result<Self, Self::Error> {
        Index::from_str(value)
    }
}

impl TryFrom<Token<'_>> for Index {
    type Error = ParseIndexError;

    fn try_from(value: Token) -> Result<Self, Self::Error> {
        Index::from_str(value.encoded())
    }
}

macro_rules! derive_try_from {
    ($($t:ty),+ $(,)?) => {
        $(
            impl TryFrom<$t> for Index {
                type Error = ParseIndexError;

                fn try_from(value: $t) -> Result<Self, Self::Error> {
                    Index::from_str(&value)
                }
            }
        )*
    }
}

derive_try_from!(String, &String);

/*
░░░░░░░░░░░░░░░░░░░░░░░░░░░░░░░░░░░░░░░░░░░░░░░░░░░░░░░░░░░░░░░░░░░░░░░░░░░░░░░░
╔══════════════════════════════════════════════════════════════════════════════╗
║                                                                              ║
║                               OutOfBoundsError                               ║
║                              ¯¯¯¯¯¯¯¯¯¯¯¯¯¯¯¯¯¯                              ║
╚══════════════════════════════════════════════════════════════════════════════╝
░░░░░░░░░░░░░░░░░░░░░░░░░░░░░░░░░░░░░░░░░░░░░░░░░░░░░░░░░░░░░░░░░░░░░░░░░░░░░░░░
*/

/// Indicates that an `Index` is not within the given bounds.
#[derive(Debug, Clone, PartialEq, Eq)]
pub struct OutOfBoundsError {
    /// The provided array length.
    ///
    /// If the range is inclusive, the resolved numerical index will be strictly
    /// less than this value, otherwise it could be equal to it.
    pub length: usize,

    /// The resolved numerical index.
    ///
    /// Note that [`Index::Next`] always resolves to the given array length,
    /// so it is only valid when the range is inclusive.
    pub index: usize,
}

impl fmt::Display for OutOfBoundsError {
    fn fmt(&self, f: &mut fmt::Formatter<'_>) -> fmt::Result {
        write!(
            f,
            "index {} out of bounds (len: {})",
            self.index, self.length
        )
    }
}

#[cfg(feature = "std")]
impl std::error::Error for OutOfBoundsError {}

/*
░░░░░░░░░░░░░░░░░░░░░░░░░░░░░░░░░░░░░░░░░░░░░░░░░░░░░░░░░░░░░░░░░░░░░░░░░░░░░░░░
╔══════════════════════════════════════════════════════════════════════════════╗
║                                                                              ║
║                               ParseIndexError                                ║
║                              ¯¯¯¯¯¯¯¯¯¯¯¯¯¯¯¯¯                               ║
╚══════════════════════════════════════════════════════════════════════════════╝
░░░░░░░░░░░░░░░░░░░░░░░░░░░░░░░░░░░░░░░░░░░░░░░░░░░░░░░░░░░░░░░░░░░░░░░░░░░░░░░░
*/

/// Indicates that the `Token` could not be parsed as valid RFC 6901 array index.
#[derive(Debug, Clone, PartialEq, Eq)]
pub enum ParseIndexError {
    /// The Token does not represent a valid integer.
    InvalidInteger(ParseIntError),
    /// The Token contains leading zeros.
    LeadingZeros,
    /// The Token contains a non-digit character.
    InvalidCharacter(InvalidCharacterError),
}

impl From<ParseIntError> for ParseIndexError {
    fn from(source: ParseIntError) -> Self {
        Self::InvalidInteger(source)
    }
}

impl fmt::Display for ParseIndexError {
    fn fmt(&self, f: &mut fmt::Formatter<'_>) -> fmt::Result {
        match self {
            ParseIndexError::InvalidInteger(_) => {
                write!(f, "failed to parse token as an integer")
            }
            ParseIndexError::LeadingZeros => write!(
                f,
                "token contained leading zeros, which are disallowed by RFC 6901"
            ),
            ParseIndexError::InvalidCharacter(_) => {
                write!(f, "failed to parse token as an index")
            }
        }
    }
}

#[cfg(feature = "std")]
impl std::error::Error for ParseIndexError {
    fn source(&self) -> Option<&(dyn std::error::Error + 'static)> {
        match self {
            ParseIndexError::InvalidInteger(source) => Some(source),
            ParseIndexError::InvalidCharacter(source) => Some(source),
            ParseIndexError::LeadingZeros => None,
        }
    }
}

/// Indicates that a non-digit character was found when parsing the RFC 6901 array index.
#[derive(Debug, Clone, PartialEq, Eq)]
pub struct InvalidCharacterError {
    pub(crate) source: String,
    pub(crate) offset: usize,
}

impl InvalidCharacterError {
    /// Returns the offset of the character in the string.
    ///
    /// This offset is given in characters, not in bytes.
    pub fn offset(&self) -> usize {
        self.offset
    }

    /// Returns the source string.
    pub fn source(&self) -> &str {
        &self.source
    }

    /// Returns the offending character.
    #[allow(clippy::missing_panics_doc)]
    pub fn char(&self) -> char {
        self.source
            .chars()
            .nth(self.offset)
            .expect("char was found at offset")
    }
}

impl fmt::Display for InvalidCharacterError {
    fn fmt(&self, f: &mut fmt::Formatter<'_>) -> fmt::Result {
        write!(
            f,
            "token contains the non-digit character '{}', \
                which is disallowed by RFC 6901",
            self.char()
        )
    }
}

#[cfg(feature = "std")]
impl std::error::Error for InvalidCharacterError {}

/*
░░░░░░░░░░░░░░░░░░░░░░░░░░░░░░░░░░░░░░░░░░░░░░░░░░░░░░░░░░░░░░░░░░░░░░░░░░░░░░░░
╔══════════════════════════════════════════════════════════════════════════════╗
║                                                                              ║
║                                    Tests                                     ║
║                                   ¯¯¯¯¯¯¯                                    ║
╚══════════════════════════════════════════════════════════════════════════════╝
░░░░░░░░░░░░░░░░░░░░░░░░░░░░░░░░░░░░░░░░░░░░░░░░░░░░░░░░░░░░░░░░░░░░░░░░░░░░░░░░
*/

#[cfg(test)]
mod tests {
    use super::*;
    use crate::Token;

    #[test]
    fn index_from_usize() {
        let index = Index::from(5usize);
        assert_eq!(index, Index::Num(5));
    }

    #[test]
    fn index_try_from_token_num() {
        let token = Token::new("3");
        let index = Index::try_from(&token).unwrap();
        assert_eq!(index, Index::Num(3));
    }

    #[test]
    fn index_try_from_token_next() {
        let token = Token::new("-");
        let index = Index::try_from(&token).unwrap();
        assert_eq!(index, Index::Next);
    }

    #[test]
    fn index_try_from_str_num() {
        let index = Index::try_from("42").unwrap();
        assert_eq!(index, Index::Num(42));
    }

    #[test]
    fn index_try_from_str_next() {
        let index = Index::try_from("-").unwrap();
        assert_eq!(index, Index::Next);
    }

    #[test]
    fn index_try_from_string_num() {
        let index = Index::try_from(String::from("7")).unwrap();
        assert_eq!(index, Index::Num(7));
    }

    #[test]
    fn index_try_from_string_next() {
        let index = Index::try_from(String::from("-")).unwrap();
        assert_eq!(index, Index::Next);
    }

    #[test]
    fn index_for_len_incl_valid() {
        assert_eq!(Index::Num(0).for_len_incl(1), Ok(0));
        assert_eq!(Index::Next.for_len_incl(2), Ok(2));
    }

    #[test]
    fn index_for_len_incl_out_of_bounds() {
        Index::Num(2).for_len_incl(1).unwrap_err();
    }

    #[test]
    fn index_for_len_unchecked() {
        assert_eq!(Index::Num(10).for_len_unchecked(5), 10);
        assert_eq!(Index::Next.for_len_unchecked(3), 3);
    }

    #[test]
    fn display_index_num() {
        let index = Index::Num(5);
        assert_eq!(index.to_string(), "5");
    }

    #[test]
    fn display_index_next() {
        assert_eq!(Index::Next.to_string(), "-");
    }

    #[test]
    fn for_len() {
        assert_eq!(Index::Num(0).for_len(1), Ok(0));
        assert!(Index::Num(1).for_len(1).is_err());
        assert!(Index::Next.for_len(1).is_err());
    }

    #[test]
    fn try_from_token() {
        let token = Token::new("3");
        let index = <Index as TryFrom<Token>>::try_from(token).unwrap();
        assert_eq!(index, Index::Num(3));
        let token = Token::new("-");
        let index = Index::try_from(&token).unwrap();
        assert_eq!(index, Index::Next);
    }
}
