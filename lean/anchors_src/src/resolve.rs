//! # Resolve values based on JSON [`Pointer`]s
//!
//! This module provides the [`Resolve`] and [`ResolveMut`] traits which are
//! implemented by types that can internally resolve a value based on a JSON
//! Pointer.
//!
//! This module is enabled by default with the `"resolve"` feature flag.
//!
//! ## Usage
//! [`Resolve`] and [`ResolveMut`] can be used directly or through the
//! [`resolve`](Pointer::resolve) and [`resolve_mut`](Pointer::resolve_mut)
//! methods on [`Pointer`] and [`PointerBuf`](crate::PointerBuf).
//!
//! ```rust
//! use jsonptr::{Pointer, Resolve, ResolveMut};
//! use serde_json::json;
//!
//! let ptr = Pointer::from_static("/foo/1");
//! let mut data = json!({"foo": ["bar", "baz"]});
//!
//! let value = ptr.resolve(&data).unwrap();
//! assert_eq!(value, &json!("baz"));
//!
//! let value = data.resolve_mut(ptr).unwrap();
//! assert_eq!(value, &json!("baz"));
//! ```
//!
//! ## Provided implementations
//!
//! | Lang  |     value type      | feature flag | Default |
//! | ----- |: ----------------- :|: ---------- :| ------- |
//! | JSON  | `serde_json::Value` |   `"json"`   |   ✓     |
//! | TOML  |    `toml::Value`    |   `"toml"`   |         |
//!
//!
use crate::{
    diagnostic::{diagnostic_url, Diagnostic, Label},
    index::{OutOfBoundsError, ParseIndexError},
    Pointer, PointerBuf, Token,
};
use alloc::{boxed::Box, string::ToString};
use core::iter::once;

/// A trait implemented by types which can resolve a reference to a value type
/// from a path represented by a JSON [`Pointer`].
pub trait Resolve {
    /// The type of value that this implementation can operate on.
    type Value;

    /// Error associated with `Resolve`
    type Error;

    /// Resolve a reference to `Self::Value` based on the path in a [Pointer].
    ///
    /// ## Errors
    /// Returns a [`Self::Error`](Resolve::Error) if the [`Pointer`] can not
    /// be resolved.
    fn resolve(&self, ptr: &Pointer) -> Result<&Self::Value, Self::Error>;
}

/// A trait implemented by types which can resolve a mutable reference to a
/// value type from a path represented by a JSON [`Pointer`].
pub trait ResolveMut {
    /// The type of value that is being resolved.
    type Value;

    /// Error associated with `ResolveMut`
    type Error;

    /// Resolve a mutable reference to a `serde_json::Value` based on the path
    /// in a JSON Pointer.
    ///
    /// ## Errors
    /// Returns a [`Self::Error`](ResolveMut::Error) if the [`Pointer`] can not
    /// be resolved.
    fn resolve_mut(&mut self, ptr: &Pointer) -> Result<&mut Self::Value, Self::Error>;
}

// TODO: should ResolveError be deprecated?
/// Alias for [`Error`].
pub type ResolveError = Error;

/// Indicates that the `Pointer` could not be resolved.
#[derive(Debug, PartialEq, Eq)]
pub enum Error {
    /// `Pointer` could not be resolved because a `Token` for an array index is
    /// not a valid integer or dash (`"-"`).
    ///
    /// ## Example
    /// ```rust
    /// # use serde_json::json;
    /// # use jsonptr::Pointer;
    /// let data = json!({ "foo": ["bar"] });
    /// let ptr = Pointer::from_static("/foo/invalid");
    /// assert!(ptr.resolve(&data).unwrap_err().is_failed_to_parse_index());
    /// ```
    FailedToParseIndex {
        /// Position (index) of the token which failed to parse as an [`Index`](crate::index::Index)
        position: usize,
        /// Offset of the partial pointer starting with the invalid index.
        offset: usize,
        /// The source `ParseIndexError`
        source: ParseIndexError,
    },

    /// A [`Token`] within the [`Pointer`] contains an [`Index`] which is out of
    /// bounds.
    ///
    /// ## Example
    /// ```rust
    /// # use serde_json::json;
    /// # use jsonptr::Pointer;
    /// let data = json!({ "foo": ["bar"] });
    /// let ptr = Pointer::from_static("/foo/1");
    /// assert!(ptr.resolve(&data).unwrap_err().is_out_of_bounds());
    OutOfBounds {
        /// Position (index) of the token which failed to parse as an [`Index`](crate::index::Index)
        position: usize,
        /// Offset of the partial pointer starting with the invalid index.
        offset: usize,
        /// The source `OutOfBoundsError`
        source: OutOfBoundsError,
    },

    /// `Pointer` could not be resolved as a segment of the path was not found.
    ///
    /// ## Example
    /// ```rust
    /// # use serde_json::json;
    /// # use jsonptr::{Pointer};
    /// let mut data = json!({ "foo": "bar" });
    /// let ptr = Pointer::from_static("/bar");
    /// assert!(ptr.resolve(&data).unwrap_err().is_not_found());
    /// ```
    NotFound {
        /// Position (index) of the token which was not found.
        position: usize,
        /// Offset of the pointer starting with the `Token` which was not found.
        offset: usize,
    },

    /// `Pointer` could not be resolved as the path contains a scalar value
    /// before fully exhausting the path.
    ///
    /// ## Example
    /// ```rust
    /// # use serde_json::json;
    /// # use jsonptr::Pointer;
    /// let mut data = json!({ "foo": "bar" });
    /// let ptr = Pointer::from_static("/foo/unreachable");
    /// let err = ptr.resolve(&data).unwrap_err();
    /// assert!(err.is_unreachable());
    /// ```
    Unreachable {
        /// Position (index) of the token which was unreachable.
        position: usize,
        /// Offset of the pointer which was unreachable.
        offset: usize,
    },
}

impl Error {
    /// Offset of the partial pointer starting with the token which caused the
    /// error.
    pub fn offset(&self) -> usize {
        match self {
            Self::FailedToParseIndex { offset, .. }
            | Self::OutOfBounds { offset, .. }
            | Self::NotFound { offset, .. }
            | Self::Unreachable { offset, .. } => *offset,
        }
    }

    /// Position (index) of the token which caused the error.
    pub fn position(&self) -> usize {
        match self {
            Self::FailedToParseIndex { position, .. }
            | Self::OutOfBounds { position, .. }
            | Self::NotFound { position, .. }
            | Self::Unreachable { position, .. } => *position,
        }
    }

    /// Returns `true` if this error is `FailedToParseIndex`; otherwise returns
    /// `false`.
    pub fn is_unreachable(&self) -> bool {
        matches!(self, Self::Unreachable { .. })
    }

    /// Returns `true` if this error is `FailedToParseIndex`; otherwise returns
    /// `false`.
    pub fn is_not_found(&self) -> bool {
        matches!(self, Self::NotFound { .. })
    }

    /// Returns `true` if this error is `FailedToParseIndex`; otherwise returns
    /// `false`.
    pub fn is_out_of_bounds(&self) -> bool {
        matches!(self, Self::OutOfBounds { .. })
    }

    /// Returns `true` if this error is `FailedToParseIndex`; otherwise returns
    /// `false`.
    pub fn is_failed_to_parse_index(&self) -> bool {
        matches!(self, Self::FailedToParseIndex { .. })
    }
}

impl Diagnostic for Error {
    type Subject = PointerBuf;

    fn url() -> &'static str {
        diagnostic_url!(enum assign::Error)
    }

    fn labels(&self, origin: &Self::Subject) -> Option<Box<dyn Iterator<Item = Label>>> {
        let position = self.position();
        let token = origin.get(position)?;
        let offset = if self.offset() + 1 < origin.as_str().len() {
            self.offset() + 1
        } else {
            self.offset()
        };
        let len = token.encoded().len();
        let text = match self {
            Error::FailedToParseIndex { .. } => "not an array index".to_string(),
            Error::OutOfBounds { source, .. } => source.to_string(),
            Error::NotFound { .. } => "not found in value".to_string(),
            Error::Unreachable { .. } => "unreachable".to_string(),
        };
        Some(Box::new(once(Label::new(text, offset, len))))
    }
}

impl core::fmt::Display for Error {
    fn fmt(&self, f: &mut core::fmt::Formatter<'_>) -> core::fmt::Result {
        match self {
            Self::FailedToParseIndex { offset, .. } => {
                write!(f, "resolve failed: json pointer token at offset {offset} failed to parse as an index")
            }
            Self::OutOfBounds { offset, .. } => {
                write!(
                    f,
                    "resolve failed: json pointer token at offset {offset} is out of bounds"
                )
            }
            Self::NotFound { offset, .. } => {
                write!(
                    f,
                    "resolve failed: json pointer token at {offset} was not found in value"
                )
            }
            Self::Unreachable { offset, .. } => {
                write!(f, "resolve failed: json pointer token at {offset} is unreachable (previous token resolved to a scalar or null value)")
            }
        }
    }
}

#[cfg(feature = "std")]
impl std::error::Error for Error {
    fn source(&self) -> Option<&(dyn std::error::Error + 'static)> {
        match self {
            Self::FailedToParseIndex { source, .. } => Some(source),
            Self::OutOfBounds { source, .. } => Some(source),
            _ => None,
        }
    }
}

#[cfg(feature = "json")]
mod json {
    use super::{parse_index, Error, Pointer, Resolve, ResolveMut};
    use serde_json::Value;

    impl Resolve for Value {
        type Value = Value;
        type Error = Error;

        fn resolve(&self, mut ptr: &Pointer) -> Result<&Value, Self::Error> {
            let mut offset = 0;
            let mut position = 0;
            let mut value = self;
            while let Some((token, rem)) = ptr.split_front() {
                let tok_len = token.encoded().len();
                ptr = rem;
                value = match value {
                    Value::Array(v) => {
                        let idx = token
                            .to_index()
                            .map_err(|source| Error::FailedToParseIndex {
                                position,
                                offset,
                                source,
                            })?
                            .for_len(v.len())
                            .map_err(|source| Error::OutOfBounds {
                                position,
                                offset,
                                source,
                            })?;
                        Ok(&v[idx])
                    }

                    Value::Object(v) => v
                        .get(token.decoded().as_ref())
                        .ok_or(Error::NotFound { position, offset }),
                    // found a leaf node but the pointer hasn't been exhausted
                    _ => Err(Error::Unreachable { position, offset }),
                }?;
                offset += 1 + tok_len;
                position += 1;
            }
            Ok(value)
        }
    }

    impl ResolveMut for Value {
        type Value = Value;
        type Error = Error;

        fn resolve_mut(&mut self, mut ptr: &Pointer) -> Result<&mut Value, Error> {
            let mut offset = 0;
            let mut position = 0;
            let mut value = self;
            while let Some((token, rem)) = ptr.split_front() {
                let tok_len = token.encoded().len();
                ptr = rem;
                value = match value {
                    Value::Array(array) => {
                        let idx = parse_index(token, array.len(), position, offset)?;
                        Ok(&mut array[idx])
                    }
                    Value::Object(v) => v
                        .get_mut(token.decoded().as_ref())
                        .ok_or(Error::NotFound { position, offset }),
                    // found a leaf node but the pointer hasn't been exhausted
                    _ => Err(Error::Unreachable { position, offset }),
                }?;
                offset += 1 + tok_len;
                position += 1;
            }
            Ok(value)
        }
    }
}
fn parse_index(
    token: Token,
    array_len: usize,
    position: usize,
    offset: usize,
) -> Result<usize, Error> {
    token
        .to_index()
        .map_err(|source| Error::FailedToParseIndex {
            position,
            offset,
            source,
        })?
        .for_len(array_len)
        .map_err(|source| Error::OutOfBounds {
            position,
            offset,
            source,
        })
}

#[cfg(feature = "toml")]
mod toml {
    use super::{Error, Resolve, ResolveMut};
    use crate::Pointer;
    use toml::Value;

    impl Resolve for Value {
        type Value = Value;
        type Error = Error;

        fn resolve(&self, mut ptr: &Pointer) -> Result<&Value, Self::Error> {
            let mut offset = 0;
            let mut position = 0;
            let mut value = self;
            while let Some((token, rem)) = ptr.split_front() {
                let tok_len = token.encoded().len();
                ptr = rem;
                value = match value {
                    Value::Array(v) => {
                        let idx = token
                            .to_index()
                            .map_err(|source| Error::FailedToParseIndex {
                                position,
                                offset,
                                source,
                            })?
                            .for_len(v.len())
                            .map_err(|source| Error::OutOfBounds {
                                position,
                                offset,
                                source,
                            })?;
                        Ok(&v[idx])
                    }

                    Value::Table(v) => v
                        .get(token.decoded().as_ref())
                        .ok_or(Error::NotFound { position, offset }),
                    // found a leaf node but the pointer hasn't been exhausted
                    _ => Err(Error::Unreachable { position, offset }),
                }?;
                offset += 1 + tok_len;
                position += 1;
            }
            Ok(value)
        }
    }

    impl ResolveMut for Value {
        type Value = Value;
        type Error = Error;

        fn resolve_mut(&mut self, mut ptr: &Pointer) -> Result<&mut Value, Error> {
            let mut offset = 0;
            let mut position = 0;

            let mut value = self;
            while let Some((token, rem)) = ptr.split_front() {
                let tok_len = token.encoded().len();
                ptr = rem;
                value = match value {
                    Value::Array(array) => {
                        let idx = token
                            .to_index()
                            .map_err(|source| Error::FailedToParseIndex {
                                position,
                                offset,
                                source,
                            })?
                            .for_len(array.len())
                            .map_err(|source| Error::OutOfBounds {
                                position,
                                offset,
                                source,
                            })?;
                        Ok(&mut array[idx])
                    }
                    Value::Table(v) => v
                        .get_mut(token.decoded().as_ref())
                        .ok_or(Error::NotFound { position, offset }),
                    // found a leaf node but the pointer hasn't been exhausted
                    _ => Err(Error::Unreachable { position, offset }),
                }?;
                offset += 1 + tok_len;
                position += 1;
            }
            Ok(value)
        }
    }
}

#[cfg(test)]
mod tests {
    use super::{Error, Resolve, ResolveMut};
    use crate::{
        index::{OutOfBoundsError, ParseIndexError},
        Pointer,
    };
    use core::fmt;

    #[test]
    fn resolve_error_is_unreachable() {
        let err = Error::FailedToParseIndex {
            position: 0,
            offset: 0,
            source: ParseIndexError::InvalidInteger("invalid".parse::<usize>().unwrap_err()),
        };
        assert!(!err.is_unreachable());

        let err = Error::OutOfBounds {
            position: 0,
            offset: 0,
            source: OutOfBoundsError {
                index: 1,
                length: 0,
            },
        };
        assert!(!err.is_unreachable());

        let err = Error::NotFound {
            position: 0,
            offset: 0,
        };
        assert!(!err.is_unreachable());

        let err = Error::Unreachable {
            position: 0,
            offset: 0,
        };
        assert!(err.is_unreachable());
    }

    #[test]
    fn resolve_error_is_not_found() {
        let err = Error::FailedToParseIndex {
            position: 0,
            offset: 0,
            source: ParseIndexError::InvalidInteger("invalid".parse::<usize>().unwrap_err()),
        };
        assert!(!err.is_not_found());

        let err = Error::OutOfBounds {
            position: 0,
            offset: 0,
            source: OutOfBoundsError {
                index: 1,
                length: 0,
            },
        };
        assert!(!err.is_not_found());

        let err = Error::NotFound {
            position: 0,
            offset: 0,
        };
        assert!(err.is_not_found());

        let err = Error::Unreachable {
            position: 0,
            offset: 0,
        };
        assert!(!err.is_not_found());
    }

    #[test]
    fn resolve_error_is_out_of_bounds() {
        let err = Error::FailedToParseIndex {
            position: 0,
            offset: 0,
            source: ParseIndexError::InvalidInteger("invalid".parse::<usize>().unwrap_err()),
        };
        assert!(!err.is_out_of_bounds());

        let err = Error::OutOfBounds {
            position: 0,
            offset: 0,
            source: OutOfBoundsError {
                index: 1,
                length: 0,
            },
        };
        assert!(err.is_out_of_bounds());

        let err = Error::NotFound {
            position: 0,
            offset: 0,
        };
        assert!(!err.is_out_of_bounds());

        let err = Error::Unreachable {
            position: 0,
            offset: 0,
        };
        assert!(!err.is_out_of_bounds());
    }

    #[test]
    fn resolve_error_is_failed_to_parse_index() {
        let err = Error::FailedToParseIndex {
            position: 0,
            offset: 0,
            source: ParseIndexError::InvalidInteger("invalid".parse::<usize>().unwrap_err()),
        };
        assert!(err.is_failed_to_parse_index());

        let err = Error::OutOfBounds {
            position: 0,
            offset: 0,
            source: OutOfBoundsError {
                index: 1,
                length: 0,
            },
        };
        assert!(!err.is_failed_to_parse_index());

        let err = Error::NotFound {
            position: 0,
            offset: 0,
        };
        assert!(!err.is_failed_to_parse_index());

        let err = Error::Unreachable {
            position: 0,
            offset: 0,
        };
        assert!(!err.is_failed_to_parse_index());
    }

    /*
    ╔═══════════════════════════════════════════════════╗
    ║                        json                       ║
    ╚═══════════════════════════════════════════════════╝
    */

    #[test]
    #[cfg(feature = "json")]
    fn resolve_json() {
        use serde_json::json;

        let data = &json!({
            "array": ["bar", "baz"],
            "object": {
                "object": {"baz": {"qux": "quux"}},
                "strings": ["zero", "one", "two"],
                "nothing": null,
                "bool": true,
                "objects": [{"field": "zero"}, {"field": "one"}, {"field": "two"}]
            },
            "": 0,
            "a/b": 1,
            "c%d": 2,
            "e^f": 3,
            "g|h": 4,
            "i\\j": 5,
            "k\"l": 6,
            " ": 7,
            "m~n": 8
        });
        // let data = &data;

        Test::all([
            // 0
            Test {
                ptr: "",
                data,
                expected: Ok(data),
            },
            // 1
            Test {
                ptr: "/array",
                data,
                expected: Ok(data.get("array").unwrap()), // ["bar", "baz"]
            },
            // 2
            Test {
                ptr: "/array/0",
                data,
                expected: Ok(data.get("array").unwrap().get(0).unwrap()), // "bar"
            },
            // 3
            Test {
                ptr: "/a~1b",
                data,
                expected: Ok(data.get("a/b").unwrap()), // 1
            },
            // 4
            Test {
                ptr: "/c%d",
                data,
                expected: Ok(data.get("c%d").unwrap()), // 2
            },
            // 5
            Test {
                ptr: "/e^f",
                data,
                expected: Ok(data.get("e^f").unwrap()), // 3
            },
            // 6
            Test {
                ptr: "/g|h",
                data,
                expected: Ok(data.get("g|h").unwrap()), // 4
            },
            // 7
            Test {
                ptr: "/i\\j",
                data,
                expected: Ok(data.get("i\\j").unwrap()), // 5
            },
            // 8
            Test {
                ptr: "/k\"l",
                data,
                expected: Ok(data.get("k\"l").unwrap()), // 6
            },
            // 9
            Test {
                ptr: "/ ",
                data,
                expected: Ok(data.get(" ").unwrap()), // 7
            },
            // 10
            Test {
                ptr: "/m~0n",
                data,
                expected: Ok(data.get("m~n").unwrap()), // 8
            },
            // 11
            Test {
                ptr: "/object/bool/unresolvable",
                data,
                expected: Err(Error::Unreachable {
                    position: 2,
                    offset: 12,
                }),
            },
            // 12
            Test {
                ptr: "/object/not_found",
                data,
                expected: Err(Error::NotFound {
                    position: 1,
                    offset: 7,
                }),
            },
        ]);
    }

    /*
    ╔═══════════════════════════════════════════════════╗
    ║                        toml                       ║
    ╚═══════════════════════════════════════════════════╝
    */
    #[test]
    #[cfg(feature = "toml")]
    fn resolve_toml() {
        use toml::{toml, Value};

        let data = &Value::Table(toml! {
            "array" = ["bar", "baz"]
            "object" = {
                "object" = {"baz" = {"qux" = "quux"}},
                "strings" = ["zero", "one", "two"],
                "bool" = true,
                "objects" = [{"field" = "zero"}, {"field" = "one"}, {"field" = "two"}]
            }
            "" = 0
            "a/b" = 1
            "c%d" = 2
            "e^f" = 3
            "g|h" = 4
            "i\\j" = 5
            "k\"l" = 6
            " " = 7
            "m~n" = 8
        });
        // let data = &data;

        Test::all([
            Test {
                ptr: "",
                data,
                expected: Ok(data),
            },
            Test {
                ptr: "/array",
                data,
                expected: Ok(data.get("array").unwrap()), // ["bar", "baz"]
            },
            Test {
                ptr: "/array/0",
                data,
                expected: Ok(data.get("array").unwrap().get(0).unwrap()), // "bar"
            },
            Test {
                ptr: "/a~1b",
                data,
                expected: Ok(data.get("a/b").unwrap()), // 1
            },
            Test {
                ptr: "/c%d",
                data,
                expected: Ok(data.get("c%d").unwrap()), // 2
            },
            Test {
                ptr: "/e^f",
                data,
                expected: Ok(data.get("e^f").unwrap()), // 3
            },
            Test {
                ptr: "/g|h",
                data,
                expected: Ok(data.get("g|h").unwrap()), // 4
            },
            Test {
                ptr: "/i\\j",
                data,
                expected: Ok(data.get("i\\j").unwrap()), // 5
            },
            Test {
                ptr: "/k\"l",
                data,
                expected: Ok(data.get("k\"l").unwrap()), // 6
            },
            Test {
                ptr: "/ ",
                data,
                expected: Ok(data.get(" ").unwrap()), // 7
            },
            Test {
                ptr: "/m~0n",
                data,
                expected: Ok(data.get("m~n").unwrap()), // 8
            },
            Test {
                ptr: "/object/bool/unresolvable",
                data,
                expected: Err(Error::Unreachable {
                    position: 2,
                    offset: 12,
                }),
            },
            Test {
                ptr: "/object/not_found",
                data,
                expected: Err(Error::NotFound {
                    position: 1,
                    offset: 7,
                }),
            },
        ]);
    }
    struct Test<'v, V> {
        ptr: &'static str,
        expected: Result<&'v V, Error>,
        data: &'v V,
    }

    impl<'v, V> Test<'v, V>
    where
        V: Resolve<Value = V, Error = Error>
            + ResolveMut<Value = V, Error = Error>
            + Clone
            + PartialEq
            + fmt::Display
            + fmt::Debug,
    {
        fn all(tests: impl IntoIterator<Item = Test<'v, V>>) {
            tests.into_iter().enumerate().for_each(|(i, t)| t.run(i));
        }

        fn run(self, _i: usize) {
            _ = self;
            let Test {
                ptr,
                data,
                expected,
            } = self;
            let ptr = Pointer::from_static(ptr);

            // cloning the data & expected to make comparison easier
            let mut data = data.clone();
            let expected = expected.cloned();

            // testing Resolve
            let res = data.resolve(ptr).cloned();
            assert_eq!(&res, &expected);

            // testing ResolveMut
            let res = data.resolve_mut(ptr).cloned();
            assert_eq!(&res, &expected);
        }
    }
}
