use crate::{Pointer, Token, Tokens};

/// A single [`Token`] or the root of a JSON Pointer
#[derive(Debug, PartialEq, Eq, PartialOrd, Ord)]
pub enum Component<'t> {
    /// The document root
    Root,
    /// A segment of a JSON Pointer
    Token(Token<'t>),
}
impl<'t> From<Token<'t>> for Component<'t> {
    fn from(token: Token<'t>) -> Self {
        Self::Token(token)
    }
}

/// An iterator over the [`Component`]s of a JSON Pointer
#[derive(Debug)]
pub struct Components<'t> {
    tokens: Tokens<'t>,
    sent_root: bool,
}

impl<'t> Iterator for Components<'t> {
    type Item = Component<'t>;
    fn next(&mut self) -> Option<Self::Item> {
        if !self.sent_root {
            self.sent_root = true;
            return Some(Component::Root);
        }
        self.tokens.next().map(Component::Token)
    }
}

impl<'t> From<&'t Pointer> for Components<'t> {
    fn from(pointer: &'t Pointer) -> Self {
        Self {
            sent_root: false,
            tokens: pointer.tokens(),
        }
    }
}

#[cfg(test)]
mod tests {
    use super::*;

    #[test]
    fn components() {
        let ptr = Pointer::from_static("");
        let components: Vec<_> = Components::from(ptr).collect();
        assert_eq!(components, vec![Component::Root]);

        let ptr = Pointer::from_static("/foo");
        let components = ptr.components().collect::<Vec<_>>();
        assert_eq!(
            components,
            vec![Component::Root, Component::Token("foo".into())]
        );

        let ptr = Pointer::from_static("/foo/bar/-/0/baz");
        let components = ptr.components().collect::<Vec<_>>();
        assert_eq!(
            components,
            vec![
                Component::Root,
                Component::from(Token::from("foo")),
                Component::Token("bar".into()),
                Component::Token("-".into()),
                Component::Token("0".into()),
                Component::Token("baz".into())
            ]
        );
    }
}
