use core::str::Split;

use crate::index::{Index, ParseIndexError};
use alloc::{
    borrow::Cow,
    fmt,
    string::{String, ToString},
    vec::Vec,
};

const ENCODED_TILDE: &[u8] = b"~0";
const ENCODED_SLASH: &[u8] = b"~1";

const ENC_PREFIX: u8 = b'~';
const TILDE_ENC: u8 = b'0';
const SLASH_ENC: u8 = b'1';

/*
░░░░░░░░░░░░░░░░░░░░░░░░░░░░░░░░░░░░░░░░░░░░░░░░░░░░░░░░░░░░░░░░░░░░░░░░░░░░░░░░
╔══════════════════════════════════════════════════════════════════════════════╗
║                                                                              ║
║                                    Token                                     ║
║                                   ¯¯¯¯¯¯¯                                    ║
╚══════════════════════════════════════════════════════════════════════════════╝
░░░░░░░░░░░░░░░░░░░░░░░░░░░░░░░░░░░░░░░░░░░░░░░░░░░░░░░░░░░░░░░░░░░░░░░░░░░░░░░░
*/

/// A `Token` is a segment of a JSON [`Pointer`](crate::Token), preceded by `'/'` (`%x2F`).
///
/// `Token`s can represent a key in a JSON object or an index in an array.
///
/// - Indexes should not contain leading zeros.
/// - When dealing with arrays or path expansion for assignment, `"-"` represent
///   the next, non-existent index in a JSON array.
#[derive(Debug, Clone, PartialEq, Eq, PartialOrd, Ord, Hash)]
pub struct Token<'a> {
    inner: Cow<'a, str>,
}

impl<'a> Token<'a> {
    /// Constructs a `Token` from an RFC 6901 encoded string.
    ///
    /// This is like [`Self::from_encoded`], except that no validation is
    /// performed on the input string.
    ///
    /// ## Safety
    /// Input string must be RFC 6901 encoded.
    pub(crate) unsafe fn from_encoded_unchecked(inner: impl Into<Cow<'a, str>>) -> Self {
        Self {
            inner: inner.into(),
        }
    }

    /// Constructs a `Token` from an RFC 6901 encoded string.
    ///
    /// To be valid, the string must not contain any `/` characters, and any `~`
    /// characters must be followed by either `0` or `1`.
    ///
    /// This function does not allocate.
    ///
    /// # Examples
    ///
    /// ```
    /// # use jsonptr::Token;
    /// assert_eq!(Token::from_encoded("~1foo~1~0bar").unwrap().decoded(), "/foo/~bar");
    /// let err = Token::from_encoded("foo/oops~bar").unwrap_err();
    /// assert_eq!(err.offset, 3);
    /// ```
    ///
    /// ## Errors
    /// Returns `InvalidEncodingError` if the input string is not a valid RFC
    /// 6901 (`~` must be followed by `0` or `1`)
    pub fn from_encoded(s: &'a str) -> Result<Self, EncodingError> {
        let mut escaped = false;
        for (offset, b) in s.bytes().enumerate() {
            match b {
                b'/' => {
                    return Err(EncodingError {
                        offset,
                        source: InvalidEncoding::Slash,
                    })
                }
                ENC_PREFIX => {
                    if escaped {
                        return Err(EncodingError {
                            offset,
                            source: InvalidEncoding::Tilde,
                        });
                    }
                    escaped = true;
                }
                TILDE_ENC | SLASH_ENC if escaped => {
                    escaped = false;
                }
                _ => {
                    if escaped {
                        return Err(EncodingError {
                            offset,
                            source: InvalidEncoding::Tilde,
                        });
                    }
                }
            }
        }
        if escaped {
            return Err(EncodingError {
                offset: s.len(),
                source: InvalidEncoding::Tilde,
            });
        }
        Ok(Self { inner: s.into() })
    }

    /// Constructs a `Token` from an arbitrary string.
    ///
    /// If the string contains a `/` or a `~`, then it will be assumed not
    /// encoded, in which case this function will encode it, allocating a new
    /// string.
    ///
    /// If the string is already encoded per RFC 6901, use
    /// [`Self::from_encoded`] instead, otherwise it will end up double-encoded.
    ///
    /// # Examples
    ///
    /// ```
    /// # use jsonptr::Token;
    /// assert_eq!(Token::new("/foo/~bar").encoded(), "~1foo~1~0bar");
    /// ```
    pub fn new(s: impl Into<Cow<'a, str>>) -> Self {
        let s = s.into();

        if let Some(i) = s.bytes().position(|b| b == b'/' || b == b'~') {
            let input = s.as_bytes();
            // we could take advantage of [`Cow::into_owned`] here, but it would
            // mean copying over the entire string, only to overwrite a portion
            // of it... so instead we explicitly allocate a new buffer and copy
            // only the prefix until the first encoded character
            // NOTE: the output is at least as large as the input + 1, so we
            // allocate that much capacity ahead of time
            let mut bytes = Vec::with_capacity(input.len() + 1);
            bytes.extend_from_slice(&input[..i]);
            for &b in &input[i..] {
                match b {
                    b'/' => {
                        bytes.extend_from_slice(ENCODED_SLASH);
                    }
                    b'~' => {
                        bytes.extend_from_slice(ENCODED_TILDE);
                    }
                    other => {
                        bytes.push(other);
                    }
                }
            }
            Self {
                // SAFETY: we started from a valid UTF-8 sequence of bytes,
                // and only replaced some ASCII characters with other two ASCII
                // characters, so the output is guaranteed valid UTF-8.
                inner: Cow::Owned(unsafe { String::from_utf8_unchecked(bytes) }),
            }
        } else {
            Self { inner: s }
        }
    }

    /// Converts into an owned copy of this token.
    ///
    /// If the token is not already owned, this will clone the referenced string
    /// slice.
    pub fn into_owned(self) -> Token<'static> {
        Token {
            inner: Cow::Owned(self.inner.into_owned()),
        }
    }

    /// Extracts an owned copy of this token.
    ///
    /// If the token is not already owned, this will clone the referenced string
    /// slice.
    ///
    /// This method is like [`Self::into_owned`], except it doesn't take
    /// ownership of the original `Token`.
    pub fn to_owned(&self) -> Token<'static> {
        Token {
            inner: Cow::Owned(self.inner.clone().into_owned()),
        }
    }

    /// Returns the encoded string representation of the `Token`.
    ///
    /// # Examples
    ///
    /// ```
    /// # use jsonptr::Token;
    /// assert_eq!(Token::new("~bar").encoded(), "~0bar");
    /// ```
    pub fn encoded(&self) -> &str {
        &self.inner
    }

    /// Returns the decoded string representation of the `Token`.
    ///
    /// # Examples
    ///
    /// ```
    /// # use jsonptr::Token;
    /// assert_eq!(Token::new("~bar").decoded(), "~bar");
    /// ```
    pub fn decoded(&self) -> Cow<'_, str> {
        if let Some(i) = self.inner.bytes().position(|b| b == ENC_PREFIX) {
            let input = self.inner.as_bytes();
            // we could take advantage of [`Cow::into_owned`] here, but it would
            // mean copying over the entire string, only to overwrite a portion
            // of it... so instead we explicitly allocate a new buffer and copy
            // only the prefix until the first encoded character
            // NOTE: the output is at least as large as the input + 1, so we
            // allocate that much capacity ahead of time
            let mut bytes = Vec::with_capacity(input.len() + 1);
            bytes.extend_from_slice(&input[..i]);
            // we start from the first escaped character
            let mut escaped = true;
            for &b in &input[i + 1..] {
                match b {
                    ENC_PREFIX => {
                        escaped = true;
                    }
                    TILDE_ENC if escaped => {
                        bytes.push(b'~');
                        escaped = false;
                    }
                    SLASH_ENC if escaped => {
                        bytes.push(b'/');
                        escaped = false;
                    }
                    other => {
                        bytes.push(other);
                    }
                }
            }
            // SAFETY: we start from a valid String, and only write valid UTF-8
            // byte sequences into it.
            Cow::Owned(unsafe { String::from_utf8_unchecked(bytes) })
        } else {
            // if there are no encoded characters, we don't need to allocate!
            Cow::Borrowed(&self.inner)
        }
    }

    /// Attempts to parse the given `Token` as an array index.
    ///
    /// Per [RFC 6901](https://datatracker.ietf.org/doc/html/rfc6901#section-4),
    /// the acceptable values are non-negative integers and the `-` character,
    /// which stands for the next, non-existent member after the last array
    /// element.
    ///
    /// ## Examples
    ///
    /// ```
    /// # use jsonptr::{index::Index, Token};
    /// assert_eq!(Token::new("-").to_index(), Ok(Index::Next));
    /// assert_eq!(Token::new("0").to_index(), Ok(Index::Num(0)));
    /// assert_eq!(Token::new("2").to_index(), Ok(Index::Num(2)));
    /// assert!(Token::new("a").to_index().is_err());
    /// assert!(Token::new("-1").to_index().is_err());
    /// ```
    /// ## Errors
    /// Returns [`ParseIndexError`] if the token is not a valid array index.
    pub fn to_index(&self) -> Result<Index, ParseIndexError> {
        self.try_into()
    }

    /// Returns if the `Token` is `-`, which stands for the next array index.
    ///
    /// See also [`Self::to_index`].
    pub fn is_next(&self) -> bool {
        matches!(self.to_index(), Ok(Index::Next))
    }
}

macro_rules! impl_from_num {
    ($($ty:ty),*) => {
        $(
            impl From<$ty> for Token<'static> {
                fn from(v: $ty) -> Self {
                    // SAFETY: only used for integer types, which are always valid
                    unsafe { Token::from_encoded_unchecked(v.to_string()) }
                }
            }
        )*
    };
}
impl_from_num!(u8, u16, u32, u64, u128, usize, i8, i16, i32, i64, i128, isize);

impl<'a> From<&'a str> for Token<'a> {
    fn from(value: &'a str) -> Self {
        Token::new(value)
    }
}

impl<'a> From<&'a String> for Token<'a> {
    fn from(value: &'a String) -> Self {
        Token::new(value)
    }
}

impl From<String> for Token<'static> {
    fn from(value: String) -> Self {
        Token::new(value)
    }
}

impl<'a> From<&Token<'a>> for Token<'a> {
    fn from(value: &Token<'a>) -> Self {
        value.clone()
    }
}

impl alloc::fmt::Display for Token<'_> {
    fn fmt(&self, f: &mut alloc::fmt::Formatter<'_>) -> alloc::fmt::Result {
        write!(f, "{}", self.decoded())
    }
}

/*
░░░░░░░░░░░░░░░░░░░░░░░░░░░░░░░░░░░░░░░░░░░░░░░░░░░░░░░░░░░░░░░░░░░░░░░░░░░░░░░░
╔══════════════════════════════════════════════════════════════════════════════╗
║                                                                              ║
║                                    Tokens                                    ║
║                                   ¯¯¯¯¯¯¯¯                                   ║
╚══════════════════════════════════════════════════════════════════════════════╝
░░░░░░░░░░░░░░░░░░░░░░░░░░░░░░░░░░░░░░░░░░░░░░░░░░░░░░░░░░░░░░░░░░░░░░░░░░░░░░░░
*/

/// An iterator over the [`Token`]s of a [`Pointer`](crate::Pointer).
#[derive(Debug)]
pub struct Tokens<'a> {
    inner: Split<'a, char>,
}

impl<'a> Iterator for Tokens<'a> {
    type Item = Token<'a>;
    fn next(&mut self) -> Option<Self::Item> {
        self.inner
            .next()
            // SAFETY: source pointer is encoded
            .map(|s| unsafe { Token::from_encoded_unchecked(s) })
    }
}
impl<'t> Tokens<'t> {
    pub(crate) fn new(inner: Split<'t, char>) -> Self {
        Self { inner }
    }
}

/*
░░░░░░░░░░░░░░░░░░░░░░░░░░░░░░░░░░░░░░░░░░░░░░░░░░░░░░░░░░░░░░░░░░░░░░░░░░░░░░░░
╔══════════════════════════════════════════════════════════════════════════════╗
║                                                                              ║
║                             InvalidEncodingError                             ║
║                            ¯¯¯¯¯¯¯¯¯¯¯¯¯¯¯¯¯¯¯¯¯¯                            ║
╚══════════════════════════════════════════════════════════════════════════════╝
░░░░░░░░░░░░░░░░░░░░░░░░░░░░░░░░░░░░░░░░░░░░░░░░░░░░░░░░░░░░░░░░░░░░░░░░░░░░░░░░
*/

#[deprecated(since = "0.7.0", note = "renamed to `EncodingError`")]
/// Deprecated alias for [`EncodingError`].
pub type InvalidEncodingError = EncodingError;

/*
░░░░░░░░░░░░░░░░░░░░░░░░░░░░░░░░░░░░░░░░░░░░░░░░░░░░░░░░░░░░░░░░░░░░░░░░░░░░░░░░
╔══════════════════════════════════════════════════════════════════════════════╗
║                                                                              ║
║                                EncodingError                                 ║
║                               ¯¯¯¯¯¯¯¯¯¯¯¯¯¯¯                                ║
╚══════════════════════════════════════════════════════════════════════════════╝
░░░░░░░░░░░░░░░░░░░░░░░░░░░░░░░░░░░░░░░░░░░░░░░░░░░░░░░░░░░░░░░░░░░░░░░░░░░░░░░░
*/

/// A token within a json pointer contained invalid encoding (`~` not followed
/// by `0` or `1`).
///
#[derive(Debug, PartialEq, Eq)]
pub struct EncodingError {
    /// offset of the erroneous `~` from within the `Token`
    pub offset: usize,
    /// the specific encoding error
    pub source: InvalidEncoding,
}

#[cfg(feature = "std")]
impl std::error::Error for EncodingError {
    fn source(&self) -> Option<&(dyn std::error::Error + 'static)> {
        Some(&self.source)
    }
}

impl fmt::Display for EncodingError {
    fn fmt(&self, f: &mut fmt::Formatter<'_>) -> fmt::Result {
        write!(
            f,
            "token contains invalid encoding at offset {}",
            self.offset
        )
    }
}

/*
░░░░░░░░░░░░░░░░░░░░░░░░░░░░░░░░░░░░░░░░░░░░░░░░░░░░░░░░░░░░░░░░░░░░░░░░░░░░░░░░
╔══════════════════════════════════════════════════════════════════════════════╗
║                                                                              ║
║                               InvalidEncoding                                ║
║                              ¯¯¯¯¯¯¯¯¯¯¯¯¯¯¯¯¯                               ║
╚══════════════════════════════════════════════════════════════════════════════╝
░░░░░░░░░░░░░░░░░░░░░░░░░░░░░░░░░░░░░░░░░░░░░░░░░░░░░░░░░░░░░░░░░░░░░░░░░░░░░░░░
*/

/// Represents the specific type of invalid encoding error.
#[derive(Debug, PartialEq, Eq, Clone, Copy)]
pub enum InvalidEncoding {
    /// `~` not followed by `0` or `1`
    Tilde,
    /// non-encoded `/` found in token
    Slash,
}

impl fmt::Display for InvalidEncoding {
    fn fmt(&self, f: &mut fmt::Formatter<'_>) -> fmt::Result {
        match self {
            InvalidEncoding::Tilde => write!(f, "tilde (~) not followed by 0 or 1"),
            InvalidEncoding::Slash => write!(f, "slash (/) found in token"),
        }
    }
}
#[cfg(feature = "std")]
impl std::error::Error for InvalidEncoding {}

/*
░░░░░░░░░░░░░░░░░░░░░░░░░░░░░░░░░░░░░░░░░░░░░░░░░░░░░░░░░░░░░░░░░░░░░░░░░░░░░░░░
╔══════════════════════════════════════════════════════════════════════════════╗
║                                                                              ║
║                                    Tests                                     ║
║                                   ¯¯¯¯¯¯¯                                    ║
╚══════════════════════════════════════════════════════════════════════════════╝
░░░░░░░░░░░░░░░░░░░░░░░░░░░░░░░░░░░░░░░░░░░░░░░░░░░░░░░░░░░░░░░░░░░░░░░░░░░░░░░░
*/

#[cfg(test)]
mod tests {
    use crate::Pointer;

    use super::*;
    use quickcheck_macros::quickcheck;

    #[test]
    fn from() {
        assert_eq!(Token::from("/").encoded(), "~1");
        assert_eq!(Token::from("~/").encoded(), "~0~1");
        assert_eq!(Token::from(34u32).encoded(), "34");
        assert_eq!(Token::from(34u64).encoded(), "34");
        assert_eq!(Token::from(String::from("foo")).encoded(), "foo");
        assert_eq!(Token::from(&Token::new("foo")).encoded(), "foo");
    }

    #[test]
    fn to_index() {
        assert_eq!(Token::new("-").to_index(), Ok(Index::Next));
        assert_eq!(Token::new("0").to_index(), Ok(Index::Num(0)));
        assert_eq!(Token::new("2").to_index(), Ok(Index::Num(2)));
        assert!(Token::new("a").to_index().is_err());
        assert!(Token::new("-1").to_index().is_err());
    }

    #[test]
    fn new() {
        assert_eq!(Token::new("~1").encoded(), "~01");
        assert_eq!(Token::new("a/b").encoded(), "a~1b");
    }

    #[test]
    fn from_encoded() {
        assert_eq!(Token::from_encoded("~1").unwrap().encoded(), "~1");
        assert_eq!(Token::from_encoded("~0~1").unwrap().encoded(), "~0~1");
        let t = Token::from_encoded("a~1b").unwrap();
        assert_eq!(t.decoded(), "a/b");
        assert!(Token::from_encoded("a/b").is_err());
        assert!(Token::from_encoded("a~a").is_err());
    }

    #[test]
    fn into_owned() {
        let token = Token::from_encoded("foo~0").unwrap().into_owned();
        assert_eq!(token.encoded(), "foo~0");
    }

    #[quickcheck]
    fn encode_decode(s: String) -> bool {
        let token = Token::new(s);
        let decoded = Token::from_encoded(token.encoded()).unwrap();
        token == decoded
    }

    #[test]
    fn tokens() {
        let pointer = Pointer::from_static("/a/b/c");
        let tokens: Vec<Token> = pointer.tokens().collect();
        assert_eq!(tokens, unsafe {
            vec![
                Token::from_encoded_unchecked("a"),
                Token::from_encoded_unchecked("b"),
                Token::from_encoded_unchecked("c"),
            ]
        });
    }

    #[test]
    fn is_next() {
        let token = Token::new("-");
        assert!(token.is_next());
        let token = Token::new("0");
        assert!(!token.is_next());
        let token = Token::new("a");
        assert!(!token.is_next());
        let token = Token::new("");
        assert!(!token.is_next());
    }
}
