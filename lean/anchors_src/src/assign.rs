//! # Assign values based on JSON [`Pointer`]s
//!
//! This module provides the [`Assign`] trait which allows for the assignment of
//! values based on a JSON Pointer.
//!
//! This module is enabled by default with the `"assign"` feature flag.
//!
//! # Expansion
//! The path will automatically be expanded if the [`Pointer`] is not fully
//! exhausted before reaching a non-existent key in the case of objects, index
//! in the case of arrays, or a scalar value (including `null`) based upon a
//! best-guess effort on the meaning of each [`Token`](crate::Token):
//! - If the [`Token`](crate::Token) is equal to `"0"` or `"-"`, the token will
//!   be considered an index of an array.
//! - All tokens not equal to `"0"` or `"-"` will be considered keys of an
//!   object.
//!
//! ## Usage
//! [`Assign`] can be used directly or through the [`assign`](Pointer::assign)
//! method of [`Pointer`].
//!
//! ```rust
//! use jsonptr::Pointer;
//! use serde_json::json;
//! let mut data = json!({"foo": "bar"});
//! let ptr = Pointer::from_static("/foo");
//! let replaced = ptr.assign(&mut data, "baz").unwrap();
//! assert_eq!(replaced, Some(json!("bar")));
//! assert_eq!(data, json!({"foo": "baz"}));
//! ```
//! ## Provided implementations
//!
//! | Lang  |     value type      | feature flag | Default |
//! | ----- |: ----------------- :|: ---------- :| ------- |
//! | JSON  | `serde_json::Value` |   `"json"`   |   ✓     |
//! | TOML  |    `toml::Value`    |   `"toml"`   |         |
//!

use crate::{
    diagnostic::{diagnostic_url, Diagnostic, Label},
    index::{OutOfBoundsError, ParseIndexError},
    Pointer, PointerBuf,
};
use alloc::{boxed::Box, string::ToString};
use core::{
    fmt::{self, Debug},
    iter::once,
};

/// Implemented by types which can internally assign a
/// ([`Value`](`Assign::Value`)) at a path represented by a JSON [`Pointer`].
///
/// ## Expansion
/// For provided implementations (`"json"`, and `"toml"`) path will
/// automatically be expanded the if the [`Pointer`] is not fully exhausted
/// before reaching a non-existent key in the case of objects, index in the case
/// of arrays, or a scalar value (including `null`) based upon a best-guess
/// effort on the meaning of each [`Token`](crate::Token):
///
/// - If the [`Token`](crate::Token) is equal to `"0"` or `"-"`, the token will
///   be considered an index of an array.
/// - All tokens not equal to `"0"` or `"-"` will be considered keys of an
///   object.
///
/// ## Examples
///
/// ### Successful assignment with replacement
/// This example demonstrates a successful assignment with replacement.
/// ```rust
/// use jsonptr::{Pointer, assign::Assign};
/// use serde_json::{json, Value};
///
/// let mut data = json!({"foo": "bar"});
/// let ptr = Pointer::from_static("/foo");
///
/// let replaced = data.assign(&ptr, "baz").unwrap();
/// assert_eq!(replaced, Some(json!("bar")));
/// assert_eq!(data, json!({"foo": "baz"}));
/// ```
///
/// ### Successful assignment with path expansion
/// This example demonstrates path expansion, including an array index (`"0"`)
/// ```rust
/// # use jsonptr::{Pointer, assign::Assign};
/// # use serde_json::{json, Value};
/// let ptr = Pointer::from_static("/foo/bar/0/baz");
/// let mut data = serde_json::json!({"foo": "bar"});
///
/// let replaced = data.assign(ptr, json!("qux")).unwrap();
///
/// assert_eq!(&data, &json!({"foo": {"bar": [{"baz": "qux"}]}}));
/// assert_eq!(replaced, Some(json!("bar")));
/// ```
///
/// ### Successful assignment with `"-"` token
///
/// This example performs path expansion using the special `"-"` token (per RFC
/// 6901) to represent the next element in an array.
///
/// ```rust
/// # use jsonptr::{Pointer, assign::Assign};
/// # use serde_json::{json, Value};
/// let ptr = Pointer::from_static("/foo/bar/-/baz");
/// let mut data = json!({"foo": "bar"});
///
/// let replaced = data.assign(ptr, json!("qux")).unwrap();
/// assert_eq!(&data, &json!({"foo": {"bar": [{"baz": "qux"}]}}));
/// assert_eq!(replaced, Some(json!("bar")));
/// ```
pub trait Assign {
    /// The type of value that this implementation can operate on.
    type Value;

    /// Error associated with `Assign`
    type Error;

    /// Assigns a value of based on the path provided by a JSON Pointer,
    /// returning the replaced value, if any.
    ///
    /// # Errors
    /// Returns [`Self::Error`] if the assignment fails.
    fn assign<V>(&mut self, ptr: &Pointer, value: V) -> Result<Option<Self::Value>, Self::Error>
    where
        V: Into<Self::Value>;
}

/// Alias for [`Error`] - indicates a value assignment failed.
#[deprecated(since = "0.7.0", note = "renamed to `Error`")]
pub type AssignError = Error;

/// Possible error returned from [`Assign`] implementations for
/// [`serde_json::Value`] and
/// [`toml::Value`](https://docs.rs/toml/0.8.14/toml/index.html).
#[derive(Debug, PartialEq, Eq)]
pub enum Error {
    /// A [`Token`](crate::Token) within the [`Pointer`] failed to be parsed as
    /// an array index.
    FailedToParseIndex {
        /// Position (index) of the token which failed to parse as an [`Index`](crate::index::Index)
        position: usize,
        /// Offset of the partial pointer starting with the invalid index.
        offset: usize,
        /// The source [`ParseIndexError`]
        source: ParseIndexError,
    },

    /// A [`Token`](crate::Token) within the [`Pointer`] contains an
    /// [`Index`](crate::index::Index) which is out of bounds.
    ///
    /// The current or resulting array's length is less than the index.
    OutOfBounds {
        /// Position (index) of the token which failed to parse as an [`Index`](crate::index::Index)
        position: usize,
        /// Offset of the partial pointer starting with the invalid index.
        offset: usize,
        /// The source [`OutOfBoundsError`]
        source: OutOfBoundsError,
    },
}

impl Error {
    /// The position (token index) of the [`Token`](crate::Token) which was out of bounds
    pub fn position(&self) -> usize {
        match self {
            Self::OutOfBounds { position, .. } | Self::FailedToParseIndex { position, .. } => {
                *position
            }
        }
    }
    /// Offset (in bytes) of the partial pointer starting with the invalid token.
    pub fn offset(&self) -> usize {
        match self {
            Self::OutOfBounds { offset, .. } | Self::FailedToParseIndex { offset, .. } => *offset,
        }
    }

    /// Returns `true` if the error is [`OutOfBounds`].
    ///
    /// [`OutOfBounds`]: Error::OutOfBounds
    #[must_use]
    pub fn is_out_of_bounds(&self) -> bool {
        matches!(self, Self::OutOfBounds { .. })
    }

    /// Returns `true` if the error is [`FailedToParseIndex`].
    ///
    /// [`FailedToParseIndex`]: Error::FailedToParseIndex
    #[must_use]
    pub fn is_failed_to_parse_index(&self) -> bool {
        matches!(self, Self::FailedToParseIndex { .. })
    }
}

impl fmt::Display for Error {
    fn fmt(&self, f: &mut fmt::Formatter<'_>) -> fmt::Result {
        match self {
            Self::FailedToParseIndex { offset, .. } => {
                write!(
                    f,
                    "assign failed: json pointer token at offset {offset} failed to parse as an array index"
                )
            }
            Self::OutOfBounds { offset, .. } => write!(
                f,
                "assign failed: json pointer token at offset {offset} is out of bounds",
            ),
        }
    }
}

impl Diagnostic for Error {
    type Subject = PointerBuf;

    fn url() -> &'static str {
        diagnostic_url!(enum assign::Error)
    }

    fn labels(&self, origin: &Self::Subject) -> Option<Box<dyn Iterator<Item = Label>>> {
        let position = self.position();
        let token = origin.get(position)?;
        let offset = if self.offset() + 1 < origin.as_str().len() {
            self.offset() + 1
        } else {
            self.offset()
        };
        let len = token.encoded().len();
        let text = match self {
            Error::FailedToParseIndex { .. } => "expected array index or '-'".to_string(),
            Error::OutOfBounds { source, .. } => {
                format!("{} is out of bounds (len: {})", source.index, source.length)
            }
        };
        Some(Box::new(once(Label::new(text, offset, len))))
    }
}

#[cfg(feature = "miette")]
impl miette::Diagnostic for Error {
    fn url<'a>(&'a self) -> Option<Box<dyn fmt::Display + 'a>> {
        Some(Box::new(<Self as Diagnostic>::url()))
    }
}

#[cfg(feature = "std")]
impl std::error::Error for Error {
    fn source(&self) -> Option<&(dyn std::error::Error + 'static)> {
        match self {
            Self::FailedToParseIndex { source, .. } => Some(source),
            Self::OutOfBounds { source, .. } => Some(source),
        }
    }
}

#[cfg(feature = "json")]
mod json {
    use super::{Assign, Assigned, Error};
    use crate::{Pointer, Token};
    use alloc::{
        string::{String, ToString},
        vec::Vec,
    };

    use core::mem;
    use serde_json::{map::Entry, Map, Value};

    fn expand(mut remaining: &Pointer, mut value: Value) -> Value {
        while let Some((ptr, tok)) = remaining.split_back() {
            remaining = ptr;
            match tok.encoded() {
                "0" | "-" => {
                    value = Value::Array(vec![value]);
                }
                _ => {
                    let mut obj = Map::new();
                    obj.insert(tok.to_string(), value);
                    value = Value::Object(obj);
                }
            }
        }
        value
    }
    impl Assign for Value {
        type Value = Value;
        type Error = Error;
        fn assign<V>(&mut self, ptr: &Pointer, value: V) -> Result<Option<Self::Value>, Self::Error>
        where
            V: Into<Self::Value>,
        {
            assign_value(ptr, self, value.into())
        }
    }

    pub(crate) fn assign_value(
        mut ptr: &Pointer,
        mut dest: &mut Value,
        mut value: Value,
    ) -> Result<Option<Value>, Error> {
        let mut offset = 0;

        let mut position = 0;
        while let Some((token, tail)) = ptr.split_front() {
            let tok_len = token.encoded().len();

            let assigned = match dest {
                Value::Array(array) => assign_array(token, tail, array, value, position, offset)?,
                Value::Object(obj) => assign_object(token, tail, obj, value),
                _ => assign_scalar(ptr, dest, value),
            };
            match assigned {
                Assigned::Done(assignment) => {
                    return Ok(assignment);
                }
                Assigned::Continue {
                    next_dest: next_value,
                    same_value: same_src,
                } => {
                    value = same_src;
                    dest = next_value;
                    ptr = tail;
                }
            }
            offset += 1 + tok_len;
            position += 1;
        }

        // Pointer is root, we can replace `dest` directly
        let replaced = Some(core::mem::replace(dest, value));
        Ok(replaced)
    }
    #[allow(clippy::needless_pass_by_value)]
    fn assign_array<'v>(
        token: Token<'_>,
        remaining: &Pointer,
        array: &'v mut Vec<Value>,
        src: Value,
        position: usize,
        offset: usize,
    ) -> Result<Assigned<'v, Value>, Error> {
        // parsing the index
        let idx = token
            .to_index()
            .map_err(|source| Error::FailedToParseIndex {
                position,
                offset,
                source,
            })?
            .for_len_incl(array.len())
            .map_err(|source| Error::OutOfBounds {
                position,
                offset,
                source,
            })?;

        debug_assert!(idx <= array.len());

        if idx < array.len() {
            // element exists in the array, we either need to replace it or continue
            // depending on whether this is the last token or not
            if remaining.is_root() {
                // last token, we replace the value and call it a day
                Ok(Assigned::Done(Some(mem::replace(&mut array[idx], src))))
            } else {
                // not the last token, we continue with a mut ref to the element as
                // the next value
                Ok(Assigned::Continue {
                    next_dest: &mut array[idx],
                    same_value: src,
                })
            }
        } else {
            // element does not exist in the array.
            // we create the path and assign the value
            let src = expand(remaining, src);
            array.push(src);
            Ok(Assigned::Done(None))
        }
    }

    #[allow(clippy::needless_pass_by_value)]
    fn assign_object<'v>(
        token: Token<'_>,
        remaining: &Pointer,
        obj: &'v mut Map<String, Value>,
        src: Value,
    ) -> Assigned<'v, Value> {
        // grabbing the entry of the token
        let entry = obj.entry(token.to_string());
        // adding token to the pointer buf

        match entry {
            Entry::Occupied(entry) => {
                // if the entry exists, we either replace it or continue
                let entry = entry.into_mut();
                if remaining.is_root() {
                    // if this is the last token, we are done
                    // grab the old value and replace it with the new one
                    Assigned::Done(Some(mem::replace(entry, src)))
                } else {
                    // if this is not the last token, we continue with a mutable
                    // reference to the entry as the next value
                    Assigned::Continue {
                        same_value: src,
                        next_dest: entry,
                    }
                }
            }
            Entry::Vacant(entry) => {
                // if the entry does not exist, we create a value based on the
                // remaining path with the src value as a leaf and assign it to the
                // entry
                entry.insert(expand(remaining, src));
                Assigned::Done(None)
            }
        }
    }

    fn assign_scalar<'v>(
        remaining: &Pointer,
        scalar: &'v mut Value,
        value: Value,
    ) -> Assigned<'v, Value> {
        // scalar values are always replaced at the current buf (with its token)
        // build the new src and we replace the value with it.
        let replaced = Some(mem::replace(scalar, expand(remaining, value)));
        Assigned::Done(replaced)
    }
}

#[cfg(feature = "toml")]
mod toml {
    use super::{Assign, Assigned, Error};
    use crate::{Pointer, Token};
    use alloc::{string::String, vec, vec::Vec};
    use core::mem;
    use toml::{map::Entry, map::Map, Value};

    fn expand(mut remaining: &Pointer, mut value: Value) -> Value {
        while let Some((ptr, tok)) = remaining.split_back() {
            remaining = ptr;
            match tok.encoded() {
                "0" | "-" => {
                    value = Value::Array(vec![value]);
                }
                _ => {
                    let mut obj = Map::new();
                    obj.insert(tok.to_string(), value);
                    value = Value::Table(obj);
                }
            }
        }
        value
    }

    impl Assign for Value {
        type Value = Value;
        type Error = Error;
        fn assign<V>(&mut self, ptr: &Pointer, value: V) -> Result<Option<Self::Value>, Self::Error>
        where
            V: Into<Self::Value>,
        {
            assign_value(ptr, self, value.into())
        }
    }

    pub(crate) fn assign_value(
        mut ptr: &Pointer,
        mut dest: &mut Value,
        mut value: Value,
    ) -> Result<Option<Value>, Error> {
        let mut offset = 0;
        let mut position = 0;

        while let Some((token, tail)) = ptr.split_front() {
            let tok_len = token.encoded().len();

            let assigned = match dest {
                Value::Array(array) => assign_array(token, tail, array, value, position, offset)?,
                Value::Table(tbl) => assign_object(token, tail, tbl, value),
                _ => assign_scalar(ptr, dest, value),
            };
            match assigned {
                Assigned::Done(assignment) => {
                    return Ok(assignment);
                }
                Assigned::Continue {
                    next_dest: next_value,
                    same_value: same_src,
                } => {
                    value = same_src;
                    dest = next_value;
                    ptr = tail;
                }
            }
            offset += 1 + tok_len;
            position += 1;
        }

        // Pointer is root, we can replace `dest` directly
        let replaced = Some(mem::replace(dest, value));
        Ok(replaced)
    }

    #[allow(clippy::needless_pass_by_value)]
    fn assign_array<'v>(
        token: Token<'_>,
        remaining: &Pointer,
        array: &'v mut Vec<Value>,
        src: Value,
        position: usize,
        offset: usize,
    ) -> Result<Assigned<'v, Value>, Error> {
        // parsing the index
        let idx = token
            .to_index()
            .map_err(|source| Error::FailedToParseIndex {
                position,
                offset,
                source,
            })?
            .for_len_incl(array.len())
            .map_err(|source| Error::OutOfBounds {
                position,
                offset,
                source,
            })?;

        debug_assert!(idx <= array.len());

        if idx < array.len() {
            // element exists in the array, we either need to replace it or continue
            // depending on whether this is the last token or not
            if remaining.is_root() {
                // last token, we replace the value and call it a day
                Ok(Assigned::Done(Some(mem::replace(&mut array[idx], src))))
            } else {
                // not the last token, we continue with a mut ref to the element as
                // the next value
                Ok(Assigned::Continue {
                    next_dest: &mut array[idx],
                    same_value: src,
                })
            }
        } else {
            // element does not exist in the array.
            // we create the path and assign the value
            let src = expand(remaining, src);
            array.push(src);
            Ok(Assigned::Done(None))
        }
    }

    #[allow(clippy::needless_pass_by_value)]
    fn assign_object<'v>(
        token: Token<'_>,
        remaining: &Pointer,
        obj: &'v mut Map<String, Value>,
        src: Value,
    ) -> Assigned<'v, Value> {
        // grabbing the entry of the token
        match obj.entry(token.to_string()) {
            Entry::Occupied(entry) => {
                // if the entry exists, we either replace it or continue
                let entry = entry.into_mut();
                if remaining.is_root() {
                    // if this is the last token, we are done
                    // grab the old value and replace it with the new one
                    Assigned::Done(Some(mem::replace(entry, src)))
                } else {
                    // if this is not the last token, we continue with a mutable
                    // reference to the entry as the next value
                    Assigned::Continue {
                        same_value: src,
                        next_dest: entry,
                    }
                }
            }
            Entry::Vacant(entry) => {
                // if the entry does not exist, we create a value based on the
                // remaining path with the src value as a leaf and assign it to the
                // entry
                entry.insert(expand(remaining, src));
                Assigned::Done(None)
            }
        }
    }

    fn assign_scalar<'v>(
        remaining: &Pointer,
        scalar: &'v mut Value,
        value: Value,
    ) -> Assigned<'v, Value> {
        // scalar values are always replaced at the current buf (with its token)
        // build the new src and we replace the value with it.
        Assigned::Done(Some(mem::replace(scalar, expand(remaining, value))))
    }
}

enum Assigned<'v, V> {
    Done(Option<V>),
    Continue { next_dest: &'v mut V, same_value: V },
}

#[cfg(test)]
#[allow(clippy::too_many_lines)]
mod tests {
    use super::{Assign, Error};
    use crate::{
        index::{InvalidCharacterError, OutOfBoundsError, ParseIndexError},
        Pointer,
    };
    use alloc::vec;
    use core::fmt::{Debug, Display};

    #[derive(Debug)]
    struct Test<V: Assign> {
        data: V,
        ptr: &'static str,
        assign: V,
        expected_data: V,
        expected: Result<Option<V>, V::Error>,
    }

    impl<V> Test<V>
    where
        V: Assign + Clone + PartialEq + Display + Debug,
        V::Value: Debug + PartialEq + From<V>,
        V::Error: Debug + PartialEq,
        Result<Option<V>, V::Error>: PartialEq<Result<Option<V::Value>, V::Error>>,
    {
        fn run(self, i: usize) {
            let Test {
                ptr,
                mut data,
                assign,
                expected_data,
                expected,
                ..
            } = self;
            let ptr = Pointer::from_static(ptr);
            let replaced = ptr.assign(&mut data, assign.clone());
            assert_eq!(
                &expected_data, &data,
                "test #{i}:\n\ndata: \n{data:#?}\n\nexpected_data\n{expected_data:#?}"
            );
            assert_eq!(&expected, &replaced);
        }
    }

    #[test]
    #[cfg(feature = "json")]
    fn assign_json() {
        use serde_json::json;
        [
            Test {
                ptr: "/foo",
                data: json!({}),
                assign: json!("bar"),
                expected_data: json!({"foo": "bar"}),
                expected: Ok(None),
            },
            Test {
                ptr: "",
                data: json!({"foo": "bar"}),
                assign: json!("baz"),
                expected_data: json!("baz"),
                expected: Ok(Some(json!({"foo": "bar"}))),
            },
            Test {
                ptr: "/foo",
                data: json!({"foo": "bar"}),
                assign: json!("baz"),
                expected_data: json!({"foo": "baz"}),
                expected: Ok(Some(json!("bar"))),
            },
            Test {
                ptr: "/foo/bar",
                data: json!({"foo": "bar"}),
                assign: json!("baz"),
                expected_data: json!({"foo": {"bar": "baz"}}),
                expected: Ok(Some(json!("bar"))),
            },
            Test {
                ptr: "/foo/bar",
                data: json!({}),
                assign: json!("baz"),
                expected_data: json!({"foo": {"bar": "baz"}}),
                expected: Ok(None),
            },
            Test {
                ptr: "/",
                data: json!({}),
                assign: json!("foo"),
                expected_data: json!({"": "foo"}),
                expected: Ok(None),
            },
            Test {
                ptr: "/-",
                data: json!({}),
                assign: json!("foo"),
                expected_data: json!({"-": "foo"}),
                expected: Ok(None),
            },
            Test {
                ptr: "/-",
                data: json!(null),
                assign: json!(34),
                expected_data: json!([34]),
                expected: Ok(Some(json!(null))),
            },
            Test {
                ptr: "/foo/-",
                data: json!({"foo": "bar"}),
                assign: json!("baz"),
                expected_data: json!({"foo": ["baz"]}),
                expected: Ok(Some(json!("bar"))),
            },
            Test {
                ptr: "/foo/-/bar",
                assign: "baz".into(),
                data: json!({}),
                expected: Ok(None),
                expected_data: json!({"foo":[{"bar": "baz"}]}),
            },
            Test {
                ptr: "/foo/-/bar",
                assign: "qux".into(),
                data: json!({"foo":[{"bar":"baz" }]}),
                expected: Ok(None),
                expected_data: json!({"foo":[{"bar":"baz"},{"bar":"qux"}]}),
            },
            Test {
                ptr: "/foo/-/bar",
                data: json!({"foo":[{"bar":"baz"},{"bar":"qux"}]}),
                assign: "quux".into(),
                expected: Ok(None),
                expected_data: json!({"foo":[{"bar":"baz"},{"bar":"qux"},{"bar":"quux"}]}),
            },
            Test {
                ptr: "/foo/0/bar",
                data: json!({"foo":[{"bar":"baz"},{"bar":"qux"},{"bar":"quux"}]}),
                assign: "grault".into(),
                expected: Ok(Some("baz".into())),
                expected_data: json!({"foo":[{"bar":"grault"},{"bar":"qux"},{"bar":"quux"}]}),
            },
            Test {
                ptr: "/0",
                data: json!({}),
                assign: json!("foo"),
                expected_data: json!({"0": "foo"}),
                expected: Ok(None),
            },
            Test {
                ptr: "/1",
                data: json!(null),
                assign: json!("foo"),
                expected_data: json!({"1": "foo"}),
                expected: Ok(Some(json!(null))),
            },
            Test {
                ptr: "/0",
                data: json!([]),
                expected_data: json!(["foo"]),
                assign: json!("foo"),
                expected: Ok(None),
            },
            Test {
                ptr: "///bar",
                data: json!({"":{"":{"bar": 42}}}),
                assign: json!(34),
                expected_data: json!({"":{"":{"bar":34}}}),
                expected: Ok(Some(json!(42))),
            },
            Test {
                ptr: "/1",
                data: json!([]),
                assign: json!("foo"),
                expected: Err(Error::OutOfBounds {
                    position: 0,
                    offset: 0,
                    source: OutOfBoundsError {
                        index: 1,
                        length: 0,
                    },
                }),
                expected_data: json!([]),
            },
            Test {
                ptr: "/0",
                data: json!(["foo"]),
                assign: json!("bar"),
                expected: Ok(Some(json!("foo"))),
                expected_data: json!(["bar"]),
            },
            Test {
                ptr: "/12a",
                data: json!([]),
                assign: json!("foo"),
                expected: Err(Error::FailedToParseIndex {
                    position: 0,
                    offset: 0,
                    source: ParseIndexError::InvalidCharacter(InvalidCharacterError {
                        source: "12a".into(),
                        offset: 2,
                    }),
                }),
                expected_data: json!([]),
            },
            Test {
                ptr: "/002",
                data: json!([]),
                assign: json!("foo"),
                expected: Err(Error::FailedToParseIndex {
                    position: 0,
                    offset: 0,
                    source: ParseIndexError::LeadingZeros,
                }),
                expected_data: json!([]),
            },
            Test {
                ptr: "/+23",
                data: json!([]),
                assign: json!("foo"),
                expected: Err(Error::FailedToParseIndex {
                    position: 0,
                    offset: 0,
                    source: ParseIndexError::InvalidCharacter(InvalidCharacterError {
                        source: "+23".into(),
                        offset: 0,
                    }),
                }),
                expected_data: json!([]),
            },
        ]
        .into_iter()
        .enumerate()
        .for_each(|(i, t)| t.run(i));
    }

    #[test]
    #[cfg(feature = "toml")]
    fn assign_toml() {
        use toml::{toml, Table, Value};
        [
            Test {
                data: Value::Table(toml::Table::new()),
                ptr: "/foo",
                assign: "bar".into(),
                expected_data: toml! { "foo" = "bar" }.into(),
                expected: Ok(None),
            },
            Test {
                data: toml! {foo =  "bar"}.into(),
                ptr: "",
                assign: "baz".into(),
                expected_data: "baz".into(),
                expected: Ok(Some(toml! {foo =  "bar"}.into())),
            },
            Test {
                data: toml! { foo = "bar"}.into(),
                ptr: "/foo",
                assign: "baz".into(),
                expected_data: toml! {foo = "baz"}.into(),
                expected: Ok(Some("bar".into())),
            },
            Test {
                data: toml! { foo = "bar"}.into(),
                ptr: "/foo/bar",
                assign: "baz".into(),
                expected_data: toml! {foo = { bar = "baz"}}.into(),
                expected: Ok(Some("bar".into())),
            },
            Test {
                data: Table::new().into(),
                ptr: "/",
                assign: "foo".into(),
                expected_data: toml! {"" =  "foo"}.into(),
                expected: Ok(None),
            },
            Test {
                data: Table::new().into(),
                ptr: "/-",
                assign: "foo".into(),
                expected_data: toml! {"-" = "foo"}.into(),
                expected: Ok(None),
            },
            Test {
                data: "data".into(),
                ptr: "/-",
                assign: 34.into(),
                expected_data: Value::Array(vec![34.into()]),
                expected: Ok(Some("data".into())),
            },
            Test {
                data: toml! {foo = "bar"}.into(),
                ptr: "/foo/-",
                assign: "baz".into(),
                expected_data: toml! {foo =  ["baz"]}.into(),
                expected: Ok(Some("bar".into())),
            },
            Test {
                data: Table::new().into(),
                ptr: "/0",
                assign: "foo".into(),
                expected_data: toml! {"0" = "foo"}.into(),
                expected: Ok(None),
            },
            Test {
                data: 21.into(),
                ptr: "/1",
                assign: "foo".into(),
                expected_data: toml! {"1" = "foo"}.into(),
                expected: Ok(Some(21.into())),
            },
            Test {
                data: Value::Array(vec![]),
                ptr: "/0",
                expected_data: vec![Value::from("foo")].into(),
                assign: "foo".into(),
                expected: Ok(None),
            },
            Test {
                ptr: "/foo/-/bar",
                assign: "baz".into(),
                data: Table::new().into(),
                expected: Ok(None),
                expected_data: toml! { "foo" = [{"bar" = "baz"}] }.into(),
            },
            Test {
                ptr: "/foo/-/bar",
                assign: "qux".into(),
                data: toml! {"foo" = [{"bar" = "baz"}] }.into(),
                expected: Ok(None),
                expected_data: toml! {"foo" = [{"bar" = "baz"}, {"bar" = "qux"}]}.into(),
            },
            Test {
                ptr: "/foo/-/bar",
                data: toml! {"foo" = [{"bar" = "baz"}, {"bar" = "qux"}]}.into(),
                assign: "quux".into(),
                expected: Ok(None),
                expected_data: toml! {"foo" = [{"bar" = "baz"}, {"bar" = "qux"}, {"bar" = "quux"}]}
                    .into(),
            },
            Test {
                ptr: "/foo/0/bar",
                data: toml! {"foo" = [{"bar" = "baz"}, {"bar" = "qux"}, {"bar" = "quux"}]}.into(),
                assign: "grault".into(),
                expected: Ok(Some("baz".into())),
                expected_data:
                    toml! {"foo" = [{"bar" = "grault"}, {"bar" = "qux"}, {"bar" = "quux"}]}.into(),
            },
            Test {
                data: Value::Array(vec![]),
                ptr: "/-",
                assign: "foo".into(),
                expected: Ok(None),
                expected_data: vec!["foo"].into(),
            },
            Test {
                data: Value::Array(vec![]),
                ptr: "/1",
                assign: "foo".into(),
                expected: Err(Error::OutOfBounds {
                    position: 0,
                    offset: 0,
                    source: OutOfBoundsError {
                        index: 1,
                        length: 0,
                    },
                }),
                expected_data: Value::Array(vec![]),
            },
            Test {
                data: Value::Array(vec![]),
                ptr: "/a",
                assign: "foo".into(),
                expected: Err(Error::FailedToParseIndex {
                    position: 0,
                    offset: 0,
                    source: ParseIndexError::InvalidCharacter(InvalidCharacterError {
                        source: "a".into(),
                        offset: 0,
                    }),
                }),
                expected_data: Value::Array(vec![]),
            },
        ]
        .into_iter()
        .enumerate()
        .for_each(|(i, t)| t.run(i));
    }
}
