// rustdoc + README hack: https://linebender.org/blog/doc-include
//! <style>.rustdoc-hidden { display: none; }</style>
//! [`Pointer`]: https://docs.rs/jsonptr/latest/jsonptr/struct.Pointer.html
//! [`Pointer::tokens`]: crate::Pointer::tokens
//! [`Pointer::components`]: crate::Pointer::components
//! [`Pointer::parse`]: crate::Pointer::parse
//! [`Pointer::resolve`]: crate::Pointer::resolve
//! [`Pointer::resolve_mut`]: crate::Pointer::resolve_mut
//! [`Pointer::assign`]: crate::Pointer::assign
//! [`Pointer::delete`]: crate::Pointer::delete
//! [`PointerBuf::parse`]: crate::PointerBuf::parse
//! [`PointerBuf`]: crate::PointerBuf
//! [`from_tokens`]: crate::PointerBuf::from_tokens
//! [`Token`]: crate::Token
//! [`Tokens`]: crate::Tokens
//! [`Components`]: crate::Components
//! [`Component`]: crate::Component
//! [`index`]: crate::index
//! [`tokens`]: crate::Pointer::tokens
//! [`components`]: crate::Pointer::components
//! [`resolve`]: crate::resolve
//! [`assign`]: crate::asign
//! [`delete`]: crate::delete
//! [`Resolve`]: crate::resolve::Resolve
//! [`ResolveMut`]: crate::resolve::ResolveMut
//! [`Assign`]: crate::assign::Assign
//! [`Delete`]: crate::delete::Delete
//! [`serde`]: https://docs.rs/serde/1.0/serde/index
//! [`serde_json`]: https://docs.rs/serde_json/1.0/serde_json/enum.Value.html
//! [`serde_json::Value`]: https://docs.rs/serde_json/1.0/serde_json/enum.Value.html
//! [`toml`]: https://docs.rs/toml/0.8/toml/enum.Value.html
//! [`toml::Value`]: https://docs.rs/toml/0.8/toml/enum.Value.html
//! [`Path`]: https://doc.rust-lang.org/std/path/struct.Path.html
//! [`PathBuf`]: https://doc.rust-lang.org/std/path/struct.PathBuf.html

#![doc = include_str!("../README.md")]
#![warn(missing_docs)]
#![deny(clippy::all, clippy::pedantic)]
#![cfg_attr(not(feature = "std"), no_std)]
#![allow(
    clippy::module_name_repetitions,
    clippy::into_iter_without_iter,
    clippy::needless_pass_by_value,
    clippy::expect_fun_call,
    clippy::must_use_candidate,
    clippy::similar_names
)]

#[cfg_attr(not(feature = "std"), macro_use)]
extern crate alloc;

#[cfg(feature = "assign")]
pub mod assign;
#[cfg(feature = "assign")]
pub use assign::Assign;

#[cfg(feature = "delete")]
pub mod delete;
#[cfg(feature = "delete")]
pub use delete::Delete;

#[cfg(feature = "resolve")]
pub mod resolve;
#[cfg(feature = "resolve")]
pub use resolve::{Resolve, ResolveMut};

pub mod diagnostic;
pub use diagnostic::{Diagnose, Report};

mod pointer;
pub use pointer::{ParseError, Pointer, PointerBuf, RichParseError};

mod token;
pub use token::{EncodingError, InvalidEncoding, Token, Tokens};

#[allow(deprecated)]
pub use token::InvalidEncodingError;

pub mod index;

mod component;
pub use component::{Component, Components};

#[cfg(test)]
mod arbitrary;
