use crate::{
    diagnostic::{diagnostic_url, Diagnostic, Label, Report},
    token::EncodingError,
    Components, InvalidEncoding, Token, Tokens,
};
use alloc::{
    borrow::{Cow, ToOwned},
    boxed::Box,
    fmt,
    string::{String, ToString},
    vec::Vec,
};
use core::{borrow::Borrow, cmp::Ordering, iter::once, ops::Deref, str::FromStr};
use slice::PointerIndex;

mod slice;

/// A JSON Pointer is a string containing a sequence of zero or more reference
/// [`Token`]s, each prefixed by a `'/'` character.
///
/// See [RFC 6901 for more
/// information](https://datatracker.ietf.org/doc/html/rfc6901).
///
/// ## Example
/// ```rust
/// use jsonptr::{Pointer, resolve::Resolve};
/// use serde_json::{json, Value};
///
/// let data = json!({ "foo": { "bar": "baz" } });
/// let ptr = Pointer::from_static("/foo/bar");
/// let bar = data.resolve(&ptr).unwrap();
/// assert_eq!(bar, "baz");
/// ```
#[derive(Debug, PartialEq, Eq, PartialOrd, Ord, Hash)]
// See https://doc.rust-lang.org/src/std/path.rs.html#1985
#[cfg_attr(not(doc), repr(transparent))]
pub struct Pointer(str);

impl Default for &Pointer {
    fn default() -> Self {
        Pointer::root()
    }
}
impl core::fmt::Display for Pointer {
    fn fmt(&self, f: &mut core::fmt::Formatter<'_>) -> core::fmt::Result {
        self.0.fmt(f)
    }
}
impl Pointer {
    /// Create a `Pointer` from a string that is known to be correctly encoded.
    ///
    /// This is a cost-free conversion.
    ///
    /// ## Safety
    /// The provided string must adhere to [RFC 6901](https://datatracker.ietf.org/doc/html/rfc6901):
    ///
    /// - The pointer must start with `'/'` (%x2F) unless empty
    /// - Tokens must be properly encoded:
    ///     - `'~'` (%x7E) must be escaped as `"~0"`
    ///     - `'/'` (%x2F) must be escaped as `"~1"`
    ///
    /// For potentially fallible parsing, see [`Pointer::parse`].
    pub unsafe fn new_unchecked<S: AsRef<str> + ?Sized>(s: &S) -> &Self {
        &*(core::ptr::from_ref::<str>(s.as_ref()) as *const Self)
    }

    /// Constant reference to a root pointer
    pub const fn root() -> &'static Self {
        // unsafe { &*(core::ptr::from_ref::<str>("") as *const Self) }
        #[allow(clippy::ref_as_ptr)]
        unsafe {
            &*("" as *const str as *const Self)
        }
    }

    /// Attempts to parse a string into a `Pointer`.
    ///
    /// If successful, this does not allocate.
    ///
    /// ## Errors
    /// Returns a `ParseError` if the string is not a valid JSON Pointer.
    pub fn parse<S: AsRef<str> + ?Sized>(s: &S) -> Result<&Self, ParseError> {
        // SAFETY: we validate first
        validate(s.as_ref()).map(|s| unsafe { Self::new_unchecked(s) })
    }

    /// Creates a static `Pointer` from a string.
    ///
    /// # Panics
    ///
    /// Will panic if the string does not represent a valid pointer.
    ///
    /// # Examples
    ///
    /// ```
    /// use jsonptr::{Pointer, resolve::Resolve};
    /// use serde_json::{json, Value};
    ///
    /// const POINTER: &Pointer = Pointer::from_static("/foo/bar");
    /// let data = json!({ "foo": { "bar": "baz" } });
    /// let bar = data.resolve(POINTER).unwrap();
    /// assert_eq!(bar, "baz");
    /// ```
    pub const fn from_static(s: &'static str) -> &'static Self {
        assert!(validate(s).is_ok(), "invalid json pointer");
        unsafe { &*(core::ptr::from_ref::<str>(s) as *const Self) }
    }

    /// The encoded string representation of this `Pointer`
    pub fn as_str(&self) -> &str {
        &self.0
    }

    /// Converts into an owned [`PointerBuf`]
    pub fn to_buf(&self) -> PointerBuf {
        PointerBuf(self.0.to_string())
    }

    /// Returns an iterator of `Token`s in the `Pointer`.
    pub fn tokens(&self) -> Tokens {
        let mut s = self.0.split('/');
        // skipping the first '/'
        s.next();
        Tokens::new(s)
    }

    /// Returns the number of tokens in the `Pointer`.
    pub fn count(&self) -> usize {
        self.tokens().count()
    }

    /// Returns `true` if the JSON Pointer equals `""`.
    pub fn is_root(&self) -> bool {
        self.0.is_empty()
    }

    /// Returns a `serde_json::Value` representation of this `Pointer`
    #[cfg(feature = "json")]
    pub fn to_json_value(&self) -> serde_json::Value {
        serde_json::Value::String(self.0.to_string())
    }

    /// Returns the last `Token` in the `Pointer`.
    pub fn back(&self) -> Option<Token> {
        self.0
            .rsplit_once('/')
            // SAFETY: pointer is encoded
            .map(|(_, back)| unsafe { Token::from_encoded_unchecked(back) })
    }

    /// Returns the last token in the `Pointer`.
    ///
    /// alias for `back`
    pub fn last(&self) -> Option<Token> {
        self.back()
    }

    /// Returns the first `Token` in the `Pointer`.
    pub fn front(&self) -> Option<Token> {
        if self.is_root() {
            return None;
        }
        self.0[1..]
            .split_once('/')
            // SAFETY: source pointer is encoded
            .map_or_else(
                || unsafe { Token::from_encoded_unchecked(&self.0[1..]) },
                |(front, _)| unsafe { Token::from_encoded_unchecked(front) },
            )
            .into()
    }

    /// Returns the first `Token` in the `Pointer`.
    ///
    /// alias for `front`
    pub fn first(&self) -> Option<Token> {
        self.front()
    }

    /// Splits the `Pointer` into the first `Token` and a remainder `Pointer`.
    pub fn split_front(&self) -> Option<(Token, &Self)> {
        if self.is_root() {
            return None;
        }
        self.0[1..]
            .find('/')
            .map_or_else(
                || {
                    (
                        // SAFETY: source pointer is encoded
                        unsafe { Token::from_encoded_unchecked(&self.0[1..]) },
                        Self::root(),
                    )
                },
                |idx| {
                    let (front, back) = self.0[1..].split_at(idx);
                    (
                        // SAFETY: source pointer is encoded
                        unsafe { Token::from_encoded_unchecked(front) },
                        // SAFETY: we split at a token boundary, so back is
                        // valid pointer.
                        unsafe { Self::new_unchecked(back) },
                    )
                },
            )
            .into()
    }

    /// Splits the `Pointer` at the given index if the character at the index is
    /// a separator slash (`'/'`), returning `Some((head, tail))`. Otherwise,
    /// returns `None`.
    ///
    /// For the following JSON Pointer, the following splits are possible (0, 4,
    /// 8):
    /// ```text
    /// /foo/bar/baz
    /// ↑   ↑   ↑
    /// 0   4   8
    /// ```
    /// All other indices will return `None`.
    ///
    /// ## Example
    ///
    /// ```rust
    /// # use jsonptr::Pointer;
    /// let ptr = Pointer::from_static("/foo/bar/baz");
    /// let (head, tail) = ptr.split_at(4).unwrap();
    /// assert_eq!(head, Pointer::from_static("/foo"));
    /// assert_eq!(tail, Pointer::from_static("/bar/baz"));
    /// assert_eq!(ptr.split_at(3), None);
    /// ```
    pub fn split_at(&self, offset: usize) -> Option<(&Self, &Self)> {
        if self.0.as_bytes().get(offset).copied() != Some(b'/') {
            return None;
        }
        let (head, tail) = self.0.split_at(offset);
        // SAFETY: we split at a token boundary, so head and tail are valid pointers
        unsafe { Some((Self::new_unchecked(head), Self::new_unchecked(tail))) }
    }

    /// Splits the `Pointer` into the parent path and the last `Token`.
    pub fn split_back(&self) -> Option<(&Self, Token)> {
        self.0.rsplit_once('/').map(|(front, back)| {
            (
                // SAFETY: we split at a token boundary, so front is a valid pointer
                unsafe { Self::new_unchecked(front) },
                // SAFETY: source token is encoded
                unsafe { Token::from_encoded_unchecked(back) },
            )
        })
    }

    /// A pointer to the parent of the current path.
    pub fn parent(&self) -> Option<&Self> {
        // SAFETY: we split at a token boundary, so front is a valid pointer
        self.0
            .rsplit_once('/')
            .map(|(front, _)| unsafe { Self::new_unchecked(front) })
    }

    /// Returns the pointer stripped of the given suffix.
    pub fn strip_suffix<'a>(&'a self, suffix: &Self) -> Option<&'a Self> {
        self.0
            .strip_suffix(&suffix.0)
            // SAFETY: the suffix is a valid pointer, so removing it from the
            // back of another pointer will preserve token boundaries
            .map(|s| unsafe { Self::new_unchecked(s) })
    }

    /// Returns the pointer stripped of the given prefix.
    pub fn strip_prefix<'a>(&'a self, prefix: &Self) -> Option<&'a Self> {
        self.0
            .strip_prefix(&prefix.0)
            // ensure we end at a token boundary
            .filter(|s| s.is_empty() || s.starts_with('/'))
            // SAFETY: the suffix is a valid pointer, so removing it from the
            // front of another pointer will preserve token boundaries
            .map(|s| unsafe { Self::new_unchecked(s) })
    }

    /// Returns whether `self` has a suffix of `other`.
    ///
    /// Note that `Pointer::root` is only a valid suffix of itself.
    pub fn ends_with(&self, other: &Self) -> bool {
        (self.is_root() && other.is_root())
            || (!other.is_root() && self.as_str().ends_with(&other.0))
    }

    /// Returns whether `self` has a prefix of `other.`
    ///
    /// Note that `Pointer::root` is a valid prefix of any `Pointer` (including
    /// itself).
    pub fn starts_with(&self, other: &Self) -> bool {
        self.as_str().starts_with(&other.0)
            // ensure we end at a token boundary
            && (other.len() == self.len() || self.0.as_bytes()[other.len()] == b'/')
    }

    /// Attempts to get a `Token` by the index. Returns `None` if the index is
    /// out of bounds.
    ///
    /// ## Example
    /// ```rust
    /// use jsonptr::{Pointer, Token};
    ///
    /// let ptr = Pointer::from_static("/foo/bar/qux");
    /// assert_eq!(ptr.get(0), Some("foo".into()));
    /// assert_eq!(ptr.get(1), Some("bar".into()));
    /// assert_eq!(ptr.get(3), None);
    /// assert_eq!(ptr.get(..), Some(Pointer::from_static("/foo/bar/qux")));
    /// assert_eq!(ptr.get(..1), Some(Pointer::from_static("/foo")));
    /// assert_eq!(ptr.get(1..3), Some(Pointer::from_static("/bar/qux")));
    /// assert_eq!(ptr.get(1..=2), Some(Pointer::from_static("/bar/qux")));
    ///
    /// let ptr = Pointer::root();
    /// assert_eq!(ptr.get(0), None);
    /// assert_eq!(ptr.get(..), Some(Pointer::root()));
    /// ```
    pub fn get<'p, I>(&'p self, index: I) -> Option<I::Output>
    where
        I: PointerIndex<'p>,
    {
        index.get(self)
    }

    /// Attempts to resolve a [`R::Value`] based on the path in this [`Pointer`].
    ///
    /// ## Errors
    /// Returns [`R::Error`] if an error occurs while resolving.
    ///
    /// The rules of such are determined by the `R`'s implementation of
    /// [`Resolve`] but provided implementations return [`ResolveError`] if:
    /// - The path is unreachable (e.g. a scalar is encountered prior to the end
    ///   of the path)
    /// - The path is not found (e.g. a key in an object or an index in an array
    ///   does not exist)
    /// - A [`Token`] cannot be parsed as an array [`Index`]
    /// - An array [`Index`] is out of bounds
    ///
    /// [`R::Value`]: `crate::resolve::Resolve::Value`
    /// [`R::Error`]: `crate::resolve::Resolve::Error`
    /// [`Resolve`]: `crate::resolve::Resolve`
    /// [`ResolveError`]: `crate::resolve::ResolveError`
    /// [`Token`]: `crate::Token`
    /// [`Index`]: `crate::index::Index`
    #[cfg(feature = "resolve")]
    pub fn resolve<'v, R: crate::Resolve>(&self, value: &'v R) -> Result<&'v R::Value, R::Error> {
        value.resolve(self)
    }

    /// Attempts to resolve a mutable [`R::Value`] based on the path in this
    /// `Pointer`.
    ///
    /// ## Errors
    /// Returns [`R::Error`] if an error occurs while
    /// resolving.
    ///
    /// The rules of such are determined by the `R`'s implementation of
    /// [`ResolveMut`] but provided implementations return [`ResolveError`] if:
    /// - The path is unreachable (e.g. a scalar is encountered prior to the end
    ///   of the path)
    /// - The path is not found (e.g. a key in an object or an index in an array
    ///   does not exist)
    /// - A [`Token`] cannot be parsed as an array [`Index`]
    /// - An array [`Index`] is out of bounds
    ///
    /// [`R::Value`]: `crate::resolve::ResolveMut::Value`
    /// [`R::Error`]: `crate::resolve::ResolveMut::Error`
    /// [`ResolveMut`]: `crate::resolve::ResolveMut`
    /// [`ResolveError`]: `crate::resolve::ResolveError`
    /// [`Token`]: `crate::Token`
    /// [`Index`]: `crate::index::Index`
    #[cfg(feature = "resolve")]
    pub fn resolve_mut<'v, R: crate::ResolveMut>(
        &self,
        value: &'v mut R,
    ) -> Result<&'v mut R::Value, R::Error> {
        value.resolve_mut(self)
    }

    /// Finds the commonality between this and another `Pointer`.
    pub fn intersection<'a>(&'a self, other: &Self) -> &'a Self {
        if self.is_root() || other.is_root() {
            return Self::root();
        }
        let mut idx = 0;
        for (a, b) in self.tokens().zip(other.tokens()) {
            if a != b {
                break;
            }
            idx += a.encoded().len() + 1;
        }
        self.split_at(idx).map_or(self, |(head, _)| head)
    }

    /// Attempts to delete a `serde_json::Value` based upon the path in this
    /// `Pointer`.
    ///
    /// The rules of deletion are determined by the `D`'s implementation of
    /// [`Delete`]. The supplied implementations (`"json"` & `"toml"`) operate
    /// as follows:
    /// - If the `Pointer` can be resolved, the `Value` is deleted and returned.
    /// - If the `Pointer` fails to resolve for any reason, `None` is returned.
    /// - If the `Pointer` is root, `value` is replaced:
    ///     - `"json"`: `serde_json::Value::Null`
    ///     - `"toml"`: `toml::Value::Table::Default`
    ///
    ///
    /// ## Examples
    /// ### Deleting a resolved pointer:
    /// ```rust
    /// use jsonptr::{Pointer, delete::Delete};
    /// use serde_json::json;
    ///
    /// let mut data = json!({ "foo": { "bar": { "baz": "qux" } } });
    /// let ptr = Pointer::from_static("/foo/bar/baz");
    /// assert_eq!(data.delete(&ptr), Some("qux".into()));
    /// assert_eq!(data, json!({ "foo": { "bar": {} } }));
    /// ```
    /// ### Deleting a non-existent Pointer returns `None`:
    /// ```rust
    /// use jsonptr::{ Pointer, delete::Delete };
    /// use serde_json::json;
    ///
    /// let mut data = json!({});
    /// let ptr = Pointer::from_static("/foo/bar/baz");
    /// assert_eq!(ptr.delete(&mut data), None);
    /// assert_eq!(data, json!({}));
    /// ```
    /// ### Deleting a root pointer replaces the value with `Value::Null`:
    /// ```rust
    /// use jsonptr::{Pointer, delete::Delete};
    /// use serde_json::json;
    ///
    /// let mut data = json!({ "foo": { "bar": "baz" } });
    /// let ptr = Pointer::root();
    /// assert_eq!(data.delete(&ptr), Some(json!({ "foo": { "bar": "baz" } })));
    /// assert!(data.is_null());
    /// ```
    ///
    /// [`Delete`]: crate::delete::Delete
    #[cfg(feature = "delete")]
    pub fn delete<D: crate::Delete>(&self, value: &mut D) -> Option<D::Value> {
        value.delete(self)
    }

    /// Attempts to assign `src` to `dest` based on the path in this `Pointer`.
    ///
    /// If the path is partially available, the missing portions will be created. If the path
    /// contains a zero index, such as `"/0"`, then an array will be created. Otherwise, objects
    /// will be utilized to create the missing path.
    ///
    /// ## Example
    /// ```rust
    /// use jsonptr::Pointer;
    /// use serde_json::{json, Value};
    ///
    /// let mut data = json!([]);
    /// let mut ptr = Pointer::from_static("/0/foo");
    /// let replaced = ptr.assign(&mut data, json!("bar")).unwrap();
    /// assert_eq!(data, json!([{"foo": "bar"}]));
    /// assert_eq!(replaced, None);
    /// ```
    ///
    /// ## Errors
    /// Returns [`Assign::Error`] if the path is invalid or if the value cannot be assigned.
    ///
    /// [`Assign::Error`]: crate::assign::Assign::Error
    #[cfg(feature = "assign")]
    pub fn assign<D, V>(&self, dest: &mut D, src: V) -> Result<Option<D::Value>, D::Error>
    where
        D: crate::Assign,
        V: Into<D::Value>,
    {
        dest.assign(self, src)
    }

    /// Returns [`Components`] of this JSON Pointer.
    ///
    /// A [`Component`](crate::Component) is either [`Token`] or the root
    /// location of a document.
    /// ## Example
    /// ```
    /// # use jsonptr::{Component, Pointer};
    /// let ptr = Pointer::parse("/a/b").unwrap();
    /// let mut components = ptr.components();
    /// assert_eq!(components.next(), Some(Component::Root));
    /// assert_eq!(components.next(), Some(Component::Token("a".into())));
    /// assert_eq!(components.next(), Some(Component::Token("b".into())));
    /// assert_eq!(components.next(), None);
    /// ```
    pub fn components(&self) -> Components {
        self.into()
    }

    /// Creates an owned [`PointerBuf`] like `self` but with `token` appended.
    ///
    /// See [`PointerBuf::push_back`] for more details.
    ///
    /// **Note**: this method allocates. If you find yourself calling it more
    /// than once for a given pointer, consider using [`PointerBuf::push_back`]
    /// instead.
    ///
    /// ## Examples
    /// ```
    /// let ptr = jsonptr::Pointer::from_static("/foo");
    /// let foobar = ptr.with_trailing_token("bar");
    /// assert_eq!(foobar, "/foo/bar");
    /// ```
    pub fn with_trailing_token<'t>(&self, token: impl Into<Token<'t>>) -> PointerBuf {
        let mut buf = self.to_buf();
        buf.push_back(token.into());
        buf
    }

    /// Creates an owned [`PointerBuf`] like `self` but with `token` prepended.
    ///
    /// See [`PointerBuf::push_front`] for more details.
    ///
    /// **Note**: this method allocates. If you find yourself calling it more
    /// than once for a given pointer, consider using [`PointerBuf::push_front`]
    /// instead.
    ///
    /// ## Examples
    /// ```
    /// let ptr = jsonptr::Pointer::from_static("/bar");
    /// let foobar = ptr.with_leading_token("foo");
    /// assert_eq!(foobar, "/foo/bar");
    /// ```
    pub fn with_leading_token<'t>(&self, token: impl Into<Token<'t>>) -> PointerBuf {
        let mut buf = self.to_buf();
        buf.push_front(token);
        buf
    }

    /// Creates an owned [`PointerBuf`] like `self` but with `other` appended to
    /// the end.
    ///
    /// See [`PointerBuf::append`] for more details.
    ///
    /// **Note**: this method allocates. If you find yourself calling it more
    /// than  given pointer, consider using [`PointerBuf::append`]
    /// instead.
    ///
    /// ## Examples
    /// ```
    /// let ptr = jsonptr::Pointer::from_static("/foo");
    /// let other = jsonptr::Pointer::from_static("/bar/baz");
    /// assert_eq!(ptr.concat(other), "/foo/bar/baz");
    /// ```
    pub fn concat(&self, other: &Pointer) -> PointerBuf {
        let mut buf = self.to_buf();
        buf.append(other);
        buf
    }

    //  Returns the length of `self` in encoded format.
    ///
    /// This length expresses the byte count of the underlying string that
    /// represents the RFC 6091 Pointer. See also [`std::str::len`].
    ///
    /// ## Examples
    /// ```
    /// let mut ptr = jsonptr::PointerBuf::parse("/foo/bar").unwrap();
    /// assert_eq!(ptr.len(), 8);
    ///
    /// ptr.push_back("~");
    /// assert_eq!(ptr.len(), 11);
    ///
    /// ```
    pub fn len(&self) -> usize {
        self.0.len()
    }

    /// Returns `true` if the `Pointer` is empty (i.e. root).    
    ///
    /// ## Examples
    /// ```
    /// let mut ptr = jsonptr::PointerBuf::new();
    /// assert!(ptr.is_empty());
    ///
    /// ptr.push_back("foo");
    /// assert!(!ptr.is_empty());
    /// ```
    pub fn is_empty(&self) -> bool {
        self.0.is_empty()
    }

    /// Converts a `Box<Pointer>` into a `PointerBuf` without copying or allocating.
    pub fn into_buf(self: Box<Pointer>) -> PointerBuf {
        let inner = Box::into_raw(self);
        // SAFETY: we ensure the layout of `Pointer` is the same as `str`
        let inner = unsafe { Box::<str>::from_raw(inner as *mut str) };
        PointerBuf(inner.into_string())
    }
}

#[cfg(feature = "serde")]
impl serde::Serialize for Pointer {
    fn serialize<S>(&self, serializer: S) -> Result<S::Ok, S::Error>
    where
        S: serde::Serializer,
    {
        <str>::serialize(&self.0, serializer)
    }
}

#[cfg(feature = "serde")]
impl<'de: 'p, 'p> serde::Deserialize<'de> for &'p Pointer {
    fn deserialize<D>(deserializer: D) -> Result<Self, D::Error>
    where
        D: serde::Deserializer<'de>,
    {
        use serde::de::{Error, Visitor};

        struct PointerVisitor;

        impl<'a> Visitor<'a> for PointerVisitor {
            type Value = &'a Pointer;

            fn expecting(&self, formatter: &mut core::fmt::Formatter) -> core::fmt::Result {
                formatter.write_str("a borrowed Pointer")
            }

            fn visit_borrowed_str<E>(self, v: &'a str) -> Result<Self::Value, E>
            where
                E: Error,
            {
                Pointer::parse(v).map_err(|err| {
                    Error::custom(format!("failed to parse json pointer\n\ncaused by:\n{err}"))
                })
            }
        }

        deserializer.deserialize_str(PointerVisitor)
    }
}

macro_rules! impl_source_code {
    ($($ty:ty),+) => {
        $(
            #[cfg(feature = "miette")]
            impl miette::SourceCode for $ty {
                fn read_span<'a>(
                    &'a self,
                    span: &miette::SourceSpan,
                    context_lines_before: usize,
                    context_lines_after: usize,
                ) -> Result<Box<dyn miette::SpanContents<'a> + 'a>, miette::MietteError> {
                    miette::SourceCode::read_span(
                        self.0.as_bytes(),
                        span,
                        context_lines_before,
                        context_lines_after,
                    )
                }
            }
        )*
    };
}

impl_source_code!(Pointer, &Pointer, PointerBuf);

impl<'p> From<&'p Pointer> for Cow<'p, Pointer> {
    fn from(value: &'p Pointer) -> Self {
        Cow::Borrowed(value)
    }
}

impl ToOwned for Pointer {
    type Owned = PointerBuf;

    fn to_owned(&self) -> Self::Owned {
        self.to_buf()
    }
}

impl PartialEq<&str> for Pointer {
    fn eq(&self, other: &&str) -> bool {
        &&self.0 == other
    }
}
impl PartialEq<String> for &Pointer {
    fn eq(&self, other: &String) -> bool {
        self.0.eq(other)
    }
}
impl PartialEq<str> for Pointer {
    fn eq(&self, other: &str) -> bool {
        &self.0 == other
    }
}

impl PartialEq<Pointer> for &str {
    fn eq(&self, other: &Pointer) -> bool {
        *self == (&other.0)
    }
}

impl PartialEq<Pointer> for String {
    fn eq(&self, other: &Pointer) -> bool {
        self == &other.0
    }
}

impl PartialEq<Pointer> for str {
    fn eq(&self, other: &Pointer) -> bool {
        self == &other.0
    }
}

impl PartialEq<String> for Pointer {
    fn eq(&self, other: &String) -> bool {
        &self.0 == other
    }
}

impl PartialEq<PointerBuf> for Pointer {
    fn eq(&self, other: &PointerBuf) -> bool {
        self.0 == other.0
    }
}

impl PartialEq<Pointer> for PointerBuf {
    fn eq(&self, other: &Pointer) -> bool {
        self.0 == other.0
    }
}
impl PartialEq<PointerBuf> for String {
    fn eq(&self, other: &PointerBuf) -> bool {
        self == &other.0
    }
}
impl PartialEq<String> for PointerBuf {
    fn eq(&self, other: &String) -> bool {
        &self.0 == other
    }
}

impl PartialEq<PointerBuf> for str {
    fn eq(&self, other: &PointerBuf) -> bool {
        self == other.0
    }
}
impl PartialEq<PointerBuf> for &str {
    fn eq(&self, other: &PointerBuf) -> bool {
        *self == other.0
    }
}

impl AsRef<Pointer> for Pointer {
    fn as_ref(&self) -> &Pointer {
        self
    }
}
impl AsRef<Pointer> for PointerBuf {
    fn as_ref(&self) -> &Pointer {
        self
    }
}

impl PartialEq<PointerBuf> for &Pointer {
    fn eq(&self, other: &PointerBuf) -> bool {
        self.0 == other.0
    }
}

impl PartialEq<&Pointer> for PointerBuf {
    fn eq(&self, other: &&Pointer) -> bool {
        self.0 == other.0
    }
}

#[cfg(feature = "json")]
impl From<&Pointer> for serde_json::Value {
    fn from(ptr: &Pointer) -> Self {
        ptr.to_json_value()
    }
}

impl AsRef<str> for Pointer {
    fn as_ref(&self) -> &str {
        &self.0
    }
}

impl Borrow<str> for Pointer {
    fn borrow(&self) -> &str {
        &self.0
    }
}

impl AsRef<[u8]> for Pointer {
    fn as_ref(&self) -> &[u8] {
        self.0.as_bytes()
    }
}

impl PartialOrd<PointerBuf> for Pointer {
    fn partial_cmp(&self, other: &PointerBuf) -> Option<Ordering> {
        self.0.partial_cmp(other.0.as_str())
    }
}

impl PartialOrd<Pointer> for PointerBuf {
    fn partial_cmp(&self, other: &Pointer) -> Option<Ordering> {
        self.0.as_str().partial_cmp(&other.0)
    }
}
impl PartialOrd<&Pointer> for PointerBuf {
    fn partial_cmp(&self, other: &&Pointer) -> Option<Ordering> {
        self.0.as_str().partial_cmp(&other.0)
    }
}

impl PartialOrd<Pointer> for String {
    fn partial_cmp(&self, other: &Pointer) -> Option<Ordering> {
        self.as_str().partial_cmp(&other.0)
    }
}
impl PartialOrd<String> for &Pointer {
    fn partial_cmp(&self, other: &String) -> Option<Ordering> {
        self.0.partial_cmp(other.as_str())
    }
}

impl PartialOrd<PointerBuf> for String {
    fn partial_cmp(&self, other: &PointerBuf) -> Option<Ordering> {
        self.as_str().partial_cmp(other.0.as_str())
    }
}

impl PartialOrd<Pointer> for str {
    fn partial_cmp(&self, other: &Pointer) -> Option<Ordering> {
        self.partial_cmp(&other.0)
    }
}

impl PartialOrd<PointerBuf> for str {
    fn partial_cmp(&self, other: &PointerBuf) -> Option<Ordering> {
        self.partial_cmp(other.0.as_str())
    }
}
impl PartialOrd<PointerBuf> for &str {
    fn partial_cmp(&self, other: &PointerBuf) -> Option<Ordering> {
        (*self).partial_cmp(other.0.as_str())
    }
}
impl PartialOrd<Pointer> for &str {
    fn partial_cmp(&self, other: &Pointer) -> Option<Ordering> {
        (*self).partial_cmp(&other.0)
    }
}

impl PartialOrd<&str> for &Pointer {
    fn partial_cmp(&self, other: &&str) -> Option<Ordering> {
        PartialOrd::partial_cmp(&self.0[..], &other[..])
    }
}

impl PartialOrd<String> for Pointer {
    fn partial_cmp(&self, other: &String) -> Option<Ordering> {
        self.0.partial_cmp(other.as_str())
    }
}

impl PartialOrd<&str> for PointerBuf {
    fn partial_cmp(&self, other: &&str) -> Option<Ordering> {
        PartialOrd::partial_cmp(&self.0[..], &other[..])
    }
}

impl PartialOrd<PointerBuf> for &Pointer {
    fn partial_cmp(&self, other: &PointerBuf) -> Option<Ordering> {
        self.0.partial_cmp(other.0.as_str())
    }
}

impl PartialOrd<String> for PointerBuf {
    fn partial_cmp(&self, other: &String) -> Option<Ordering> {
        self.0.partial_cmp(other)
    }
}

impl<'a> IntoIterator for &'a Pointer {
    type Item = Token<'a>;
    type IntoIter = Tokens<'a>;
    fn into_iter(self) -> Self::IntoIter {
        self.tokens()
    }
}

/// An owned, mutable [`Pointer`] (akin to `String`).
///
/// This type provides methods like [`PointerBuf::push_back`] and
/// [`PointerBuf::replace`] that mutate the pointer in place. It also
/// implements [`core::ops::Deref`] to [`Pointer`], meaning that all methods on
/// [`Pointer`] slices are available on `PointerBuf` values as well.
#[derive(Clone, Default, Debug, PartialEq, Eq, PartialOrd, Ord, Hash)]
pub struct PointerBuf(String);

impl PointerBuf {
    /// Creates a new `PointerBuf` pointing to a document root.
    ///
    /// This is an alias to [`Self::new`].
    pub fn root() -> Self {
        Self::new()
    }

    /// Creates a new `PointerBuf` pointing to a document root.
    pub fn new() -> Self {
        Self(String::new())
    }

    /// Create a `PointerBuf` from a string that is known to be correctly encoded.
    ///
    /// ## Safety
    /// The provided string must adhere to RFC 6901.
    pub unsafe fn new_unchecked(s: impl Into<String>) -> Self {
        Self(s.into())
    }

    /// Attempts to parse a string into a `PointerBuf`.
    ///
    /// ## Errors
    /// Returns a [`RichParseError`] if the string is not a valid JSON Pointer.
    pub fn parse(s: impl Into<String>) -> Result<Self, RichParseError> {
        let s = s.into();
        match validate(&s) {
            Ok(_) => Ok(Self(s)),
            Err(err) => Err(err.into_report(s)),
        }
    }

    /// Creates a new `PointerBuf` from a slice of non-encoded strings.
    pub fn from_tokens<'t>(tokens: impl IntoIterator<Item: Into<Token<'t>>>) -> Self {
        let mut inner = String::new();
        for t in tokens.into_iter().map(Into::into) {
            inner.push('/');
            inner.push_str(t.encoded());
        }
        PointerBuf(inner)
    }

    /// Coerces to a Pointer slice.
    pub fn as_ptr(&self) -> &Pointer {
        self
    }

    /// Pushes a `Token` onto the front of this `Pointer`.
    pub fn push_front<'t>(&mut self, token: impl Into<Token<'t>>) {
        self.0.insert(0, '/');
        self.0.insert_str(1, token.into().encoded());
    }

    /// Pushes a `Token` onto the back of this `Pointer`.
    pub fn push_back<'t>(&mut self, token: impl Into<Token<'t>>) {
        self.0.push('/');
        self.0.push_str(token.into().encoded());
    }

    /// Removes and returns the last `Token` in the `Pointer` if it exists.
    pub fn pop_back(&mut self) -> Option<Token<'static>> {
        if let Some(idx) = self.0.rfind('/') {
            // SAFETY: source pointer is encoded
            let back = unsafe { Token::from_encoded_unchecked(self.0.split_off(idx + 1)) };
            self.0.pop(); // remove trailing `/`
            Some(back)
        } else {
            None
        }
    }

    /// Removes and returns the first `Token` in the `Pointer` if it exists.
    pub fn pop_front(&mut self) -> Option<Token<'static>> {
        (!self.is_root()).then(|| {
            // if not root, must contain at least one `/`
            let mut token = if let Some(idx) = self.0[1..].find('/') {
                let token = self.0.split_off(idx + 1);
                core::mem::replace(&mut self.0, token)
            } else {
                core::mem::take(&mut self.0)
            };
            // remove leading `/`
            token.remove(0);
            // SAFETY: source pointer is encoded
            unsafe { Token::from_encoded_unchecked(token) }
        })
    }

    /// Merges two `Pointer`s by appending `other` onto `self`.
    pub fn append<P: AsRef<Pointer>>(&mut self, other: P) -> &PointerBuf {
        let other = other.as_ref();
        if self.is_root() {
            self.0 = other.0.to_string();
        } else if !other.is_root() {
            self.0.push_str(&other.0);
        }
        self
    }

    /// Attempts to replace a `Token` by the index, returning the replaced
    /// `Token` if it already exists. Returns `None` otherwise.
    ///
    /// ## Errors
    /// A [`ReplaceError`] is returned if the index is out of bounds.
    pub fn replace<'t>(
        &mut self,
        index: usize,
        token: impl Into<Token<'t>>,
    ) -> Result<Option<Token>, ReplaceError> {
        if self.is_root() {
            return Err(ReplaceError {
                count: self.count(),
                index,
            });
        }
        let mut tokens = self.tokens().collect::<Vec<_>>();
        if index >= tokens.len() {
            return Err(ReplaceError {
                count: tokens.len(),
                index,
            });
        }
        let old = tokens.get(index).map(super::token::Token::to_owned);
        tokens[index] = token.into();

        let mut buf = String::new();
        for token in tokens {
            buf.push('/');
            buf.push_str(token.encoded());
        }
        self.0 = buf;

        Ok(old)
    }

    /// Clears the `Pointer`, setting it to root (`""`).
    pub fn clear(&mut self) {
        self.0.clear();
    }
}

impl FromStr for PointerBuf {
    type Err = ParseError;
    fn from_str(s: &str) -> Result<Self, Self::Err> {
        Self::try_from(s)
    }
}

impl Borrow<Pointer> for PointerBuf {
    fn borrow(&self) -> &Pointer {
        self.as_ptr()
    }
}

impl Deref for PointerBuf {
    type Target = Pointer;
    fn deref(&self) -> &Self::Target {
        // SAFETY: we hold a valid pointer
        unsafe { Pointer::new_unchecked(self.0.as_str()) }
    }
}

impl From<PointerBuf> for Box<Pointer> {
    fn from(value: PointerBuf) -> Self {
        let s = value.0.into_boxed_str();
        // SAFETY: we ensure that the layout of `str` is the same as `Pointer`
        unsafe { Box::from_raw(Box::into_raw(s) as *mut Pointer) }
    }
}

#[cfg(feature = "serde")]
impl<'de> serde::Deserialize<'de> for PointerBuf {
    fn deserialize<D>(deserializer: D) -> Result<Self, D::Error>
    where
        D: serde::Deserializer<'de>,
    {
        use serde::de::Error;
        let s = String::deserialize(deserializer)?;
        PointerBuf::try_from(s).map_err(D::Error::custom)
    }
}

#[cfg(feature = "serde")]
impl serde::Serialize for PointerBuf {
    fn serialize<S>(&self, serializer: S) -> Result<S::Ok, S::Error>
    where
        S: serde::Serializer,
    {
        String::serialize(&self.0, serializer)
    }
}

impl From<PointerBuf> for Cow<'static, Pointer> {
    fn from(value: PointerBuf) -> Self {
        Cow::Owned(value)
    }
}

impl From<Token<'_>> for PointerBuf {
    fn from(t: Token) -> Self {
        PointerBuf::from_tokens([t])
    }
}

impl TryFrom<String> for PointerBuf {
    type Error = ParseError;
    fn try_from(value: String) -> Result<Self, Self::Error> {
        let _ = validate(&value)?;
        Ok(Self(value))
    }
}

impl From<usize> for PointerBuf {
    fn from(value: usize) -> Self {
        PointerBuf::from_tokens([value])
    }
}

impl<'a> IntoIterator for &'a PointerBuf {
    type Item = Token<'a>;
    type IntoIter = Tokens<'a>;
    fn into_iter(self) -> Self::IntoIter {
        self.tokens()
    }
}

impl TryFrom<&str> for PointerBuf {
    type Error = ParseError;
    fn try_from(value: &str) -> Result<Self, Self::Error> {
        Pointer::parse(value).map(Pointer::to_buf)
    }
}

impl PartialEq<&str> for PointerBuf {
    fn eq(&self, other: &&str) -> bool {
        &self.0 == other
    }
}

impl PartialEq<str> for PointerBuf {
    fn eq(&self, other: &str) -> bool {
        self.0 == other
    }
}

impl core::fmt::Display for PointerBuf {
    fn fmt(&self, f: &mut core::fmt::Formatter<'_>) -> core::fmt::Result {
        self.0.fmt(f)
    }
}

/// Indicates that a [`Pointer`] was unable to be parsed due to not containing
/// a leading slash (`'/'`).
#[derive(Debug, PartialEq, Eq, Clone, Copy)]
pub struct NoLeadingSlash;

impl fmt::Display for NoLeadingSlash {
    fn fmt(&self, f: &mut fmt::Formatter<'_>) -> fmt::Result {
        write!(
            f,
            "json pointer must start with a slash ('/') and is not empty"
        )
    }
}

/// Indicates that a `Pointer` was malformed and unable to be parsed.
#[derive(Debug, PartialEq)]
pub enum ParseError {
    /// `Pointer` did not start with a slash (`'/'`).
    NoLeadingSlash,

    /// `Pointer` contained invalid encoding (e.g. `~` not followed by `0` or
    /// `1`).
    InvalidEncoding {
        /// Offset of the partial pointer starting with the token that contained
        /// the invalid encoding
        offset: usize,
        /// The source `InvalidEncodingError`
        source: EncodingError,
    },
}

impl ParseError {
    /// Offset of the partial pointer starting with the token that contained the
    /// invalid encoding
    pub fn offset(&self) -> usize {
        match self {
            Self::NoLeadingSlash => 0,
            Self::InvalidEncoding { offset, .. } => *offset,
        }
    }
    /// Length of the invalid encoding
    pub fn invalid_encoding_len(&self, subject: &str) -> usize {
        match self {
            Self::NoLeadingSlash => 0,
            Self::InvalidEncoding { .. } => {
                if self.complete_offset() + 1 < subject.len() {
                    2
                } else {
                    1
                }
            }
        }
    }
}

impl Diagnostic for ParseError {
    type Subject = String;

    fn url() -> &'static str {
        diagnostic_url!(struct ParseError)
    }

    fn labels(&self, subject: &Self::Subject) -> Option<Box<dyn Iterator<Item = Label>>> {
        let offset = self.complete_offset();
        let len = self.invalid_encoding_len(subject);
        let text = match self {
            ParseError::NoLeadingSlash => "must start with a slash ('/')",
            ParseError::InvalidEncoding { .. } => "'~' must be followed by '0' or '1'",
        }
        .to_string();
        Some(Box::new(once(Label::new(text, offset, len))))
    }
}

#[cfg(feature = "miette")]
impl miette::Diagnostic for ParseError {}

impl fmt::Display for ParseError {
    fn fmt(&self, f: &mut fmt::Formatter<'_>) -> fmt::Result {
        match self {
            Self::NoLeadingSlash { .. } => {
                write!(
                    f,
                    "json pointer failed to parse; does not start with a slash ('/') and is not empty"
                )
            }
            Self::InvalidEncoding { offset, .. } => {
                write!(
                    f,
                    "json pointer failed to parse; the first token in the partial-pointer starting at offset {offset} is malformed"
                )
            }
        }
    }
}

impl ParseError {
    #[deprecated(note = "renamed to `is_no_leading_slash`", since = "0.7.0")]
    /// Returns `true` if this error is `NoLeadingSlash`
    pub fn is_no_leading_backslash(&self) -> bool {
        matches!(self, Self::NoLeadingSlash { .. })
    }

    /// Returns `true` if this error is `NoLeadingSlash`
    pub fn is_no_leading_slash(&self) -> bool {
        matches!(self, Self::NoLeadingSlash { .. })
    }

    /// Returns `true` if this error is `InvalidEncoding`    
    pub fn is_invalid_encoding(&self) -> bool {
        matches!(self, Self::InvalidEncoding { .. })
    }

    /// Offset of the partial pointer starting with the token which caused the error.
    ///
    /// ```text
    /// "/foo/invalid~tilde/invalid"
    ///      ↑
    /// ```
    ///
    /// ```
    /// # use jsonptr::PointerBuf;
    /// let err = PointerBuf::parse("/foo/invalid~tilde/invalid").unwrap_err();
    /// assert_eq!(err.pointer_offset(), 4)
    /// ```
    pub fn pointer_offset(&self) -> usize {
        match *self {
            Self::NoLeadingSlash { .. } => 0,
            Self::InvalidEncoding { offset, .. } => offset,
        }
    }

    /// Offset of the character index from within the first token of
    /// [`Self::pointer_offset`])
    ///
    /// ```text
    /// "/foo/invalid~tilde/invalid"
    ///              ↑
    ///              8
    /// ```
    /// ```
    /// # use jsonptr::PointerBuf;
    /// let err = PointerBuf::parse("/foo/invalid~tilde/invalid").unwrap_err();
    /// assert_eq!(err.source_offset(), 8)
    /// ```
    pub fn source_offset(&self) -> usize {
        match self {
            Self::NoLeadingSlash { .. } => 0,
            Self::InvalidEncoding { source, .. } => source.offset,
        }
    }

    /// Offset of the first invalid encoding from within the pointer.
    /// ```text
    /// "/foo/invalid~tilde/invalid"
    ///              ↑
    ///             12
    /// ```
    /// ```
    /// use jsonptr::PointerBuf;
    /// let err = PointerBuf::parse("/foo/invalid~tilde/invalid").unwrap_err();
    /// assert_eq!(err.complete_offset(), 12)
    /// ```
    pub fn complete_offset(&self) -> usize {
        self.source_offset() + self.pointer_offset()
    }
}

#[cfg(feature = "std")]
impl std::error::Error for ParseError {
    fn source(&self) -> Option<&(dyn std::error::Error + 'static)> {
        match self {
            Self::InvalidEncoding { source, .. } => Some(source),
            Self::NoLeadingSlash => None,
        }
    }
}

/// A rich error type that includes the original string that failed to parse.
pub type RichParseError = Report<ParseError>;

/// Returned from [`PointerBuf::replace`] when the provided index is out of
/// bounds.
#[derive(Debug, PartialEq, Eq)]
pub struct ReplaceError {
    /// The index of the token that was out of bounds.
    pub index: usize,
    /// The number of tokens in the `Pointer`.
    pub count: usize,
}

impl fmt::Display for ReplaceError {
    fn fmt(&self, f: &mut fmt::Formatter<'_>) -> fmt::Result {
        write!(f, "index {} is out of bounds ({})", self.index, self.count)
    }
}

#[cfg(feature = "std")]
impl std::error::Error for ReplaceError {}

const fn validate(value: &str) -> Result<&str, ParseError> {
    if value.is_empty() {
        return Ok(value);
    }
    if let Err(err) = validate_bytes(value.as_bytes(), 0) {
        return Err(err);
    }
    Ok(value)
}

const fn validate_bytes(bytes: &[u8], offset: usize) -> Result<(), ParseError> {
    if bytes[0] != b'/' && offset == 0 {
        return Err(ParseError::NoLeadingSlash);
    }

    let mut ptr_offset = offset; // offset within the pointer of the most recent '/' separator
    let mut tok_offset = 0; // offset within the current token

    let mut i = offset;
    while i < bytes.len() {
        match bytes[i] {
            b'/' => {
                ptr_offset = i;
                // and reset the token offset
                tok_offset = 0;
            }
            b'~' => {
                // if the character is a '~', then the next character must be '0' or '1'
                // otherwise the encoding is invalid and `InvalidEncodingError` is returned
                if i + 1 >= bytes.len() || (bytes[i + 1] != b'0' && bytes[i + 1] != b'1') {
                    // the pointer is not properly encoded
                    //
                    // we use the pointer offset, which points to the last
                    // encountered separator, as the offset of the error.
                    // The source `InvalidEncodingError` then uses the token
                    // offset.
                    //
                    // "/foo/invalid~encoding"
                    //      ^       ^
                    //      |       |
                    //  ptr_offset  |
                    //          tok_offset
                    //
                    return Err(ParseError::InvalidEncoding {
                        offset: ptr_offset,
                        source: EncodingError {
                            offset: tok_offset,
                            source: InvalidEncoding::Tilde,
                        },
                    });
                }
                // already checked the next character, so we skip it
                i += 1;
                // incrementing the pointer offset since the next byte has
                // already been checked
                tok_offset += 1;
            }
            _ => {}
        }
        i += 1;
        // not a separator so we increment the token offset
        tok_offset += 1;
    }
    Ok(())
}

#[cfg(test)]
mod tests {
    use std::error::Error;

    use super::*;
    use quickcheck::TestResult;
    use quickcheck_macros::quickcheck;

    #[test]
    #[should_panic = "invalid json pointer"]
    fn from_const_validates() {
        let _ = Pointer::from_static("foo/bar");
    }

    #[test]
    fn root_is_alias_of_new_pathbuf() {
        assert_eq!(PointerBuf::root(), PointerBuf::new());
    }

    #[test]
    fn from_unchecked_pathbuf() {
        let s = "/foo/bar/0";
        assert_eq!(
            unsafe { PointerBuf::new_unchecked(String::from(s)) },
            PointerBuf::parse(s).unwrap()
        );
    }

    #[test]
    fn strip_suffix() {
        let p = Pointer::from_static("/example/pointer/to/some/value");
        let stripped = p
            .strip_suffix(Pointer::from_static("/to/some/value"))
            .unwrap();
        assert_eq!(stripped, "/example/pointer");
    }

    #[test]
    fn strip_prefix() {
        let p = Pointer::from_static("/example/pointer/to/some/value");
        let stripped = p
            .strip_prefix(Pointer::from_static("/example/pointer"))
            .unwrap();
        assert_eq!(stripped, "/to/some/value");
    }

    #[test]
    fn ends_with() {
        // positive cases
        let p = Pointer::from_static("/foo/bar");
        let q = Pointer::from_static("/bar");
        assert!(p.ends_with(q));
        let q = Pointer::from_static("/foo/bar");
        assert!(p.ends_with(q));

        // negative cases
        let q = Pointer::from_static("/barz");
        assert!(!p.ends_with(q));
        let q = Pointer::from_static("/");
        assert!(!p.ends_with(q));
        let q = Pointer::from_static("");
        assert!(!p.ends_with(q));
        let q = Pointer::from_static("/qux/foo/bar");
        assert!(!p.ends_with(q));

        // edge case - both root
        let p = Pointer::root();
        let q = Pointer::root();
        assert!(p.ends_with(q));
    }

    #[test]
    fn starts_with() {
        // positive cases
        let p = Pointer::from_static("/foo/bar");
        let q = Pointer::from_static("/foo");
        assert!(p.starts_with(q));
        let q = Pointer::from_static("/foo/bar");
        assert!(p.starts_with(q));

        // negative cases
        let q = Pointer::from_static("/");
        assert!(!p.starts_with(q));
        let q = Pointer::from_static("/fo");
        assert!(!p.starts_with(q));
        let q = Pointer::from_static("/foo/");
        assert!(!p.starts_with(q));

        // edge cases: other is root
        let p = Pointer::root();
        let q = Pointer::root();
        assert!(p.starts_with(q));
        let p = Pointer::from_static("/");
        assert!(p.starts_with(q));
        let p = Pointer::from_static("/any/thing");
        assert!(p.starts_with(q));
    }

    #[test]
    fn parse() {
        let tests = [
            ("", Ok("")),
            ("/", Ok("/")),
            ("/foo", Ok("/foo")),
            ("/foo/bar", Ok("/foo/bar")),
            ("/foo/bar/baz", Ok("/foo/bar/baz")),
            ("/foo/bar/baz/~0", Ok("/foo/bar/baz/~0")),
            ("/foo/bar/baz/~1", Ok("/foo/bar/baz/~1")),
            ("/foo/bar/baz/~01", Ok("/foo/bar/baz/~01")),
            ("/foo/bar/baz/~10", Ok("/foo/bar/baz/~10")),
            ("/foo/bar/baz/~11", Ok("/foo/bar/baz/~11")),
            ("/foo/bar/baz/~1/~0", Ok("/foo/bar/baz/~1/~0")),
            ("missing-slash", Err(ParseError::NoLeadingSlash)),
            (
                "/~",
                Err(ParseError::InvalidEncoding {
                    offset: 0,
                    source: EncodingError {
                        offset: 1,
                        source: InvalidEncoding::Tilde,
                    },
                }),
            ),
            (
                "/~2",
                Err(ParseError::InvalidEncoding {
                    offset: 0,
                    source: EncodingError {
                        offset: 1,
                        source: InvalidEncoding::Tilde,
                    },
                }),
            ),
            (
                "/~a",
                Err(ParseError::InvalidEncoding {
                    offset: 0,
                    source: EncodingError {
                        offset: 1,
                        source: InvalidEncoding::Tilde,
                    },
                }),
            ),
        ];
        for (input, expected) in tests {
            let actual = Pointer::parse(input).map(Pointer::as_str);
            assert_eq!(actual, expected);
        }
    }

    #[test]
    fn parse_error_offsets() {
        let err = Pointer::parse("/foo/invalid~encoding").unwrap_err();
        assert_eq!(err.pointer_offset(), 4);
        assert_eq!(err.source_offset(), 8);
        assert_eq!(err.complete_offset(), 12);

        let err = Pointer::parse("invalid~encoding").unwrap_err();
        assert_eq!(err.pointer_offset(), 0);
        assert_eq!(err.source_offset(), 0);

        let err = Pointer::parse("no-leading/slash").unwrap_err();
        assert!(err.source().is_none());
    }

    #[test]
    fn pointer_buf_clear() {
        let mut ptr = PointerBuf::from_tokens(["foo", "bar"]);
        ptr.clear();
        assert_eq!(ptr, "");
    }

    #[test]
    fn push_pop_back() {
        let mut ptr = PointerBuf::default();
        assert_eq!(ptr, "", "default, root pointer should equal \"\"");
        assert_eq!(ptr.count(), 0, "default pointer should have 0 tokens");

        ptr.push_back("foo");
        assert_eq!(ptr, "/foo", "pointer should equal \"/foo\" after push_back");

        ptr.push_back("bar");
        assert_eq!(ptr, "/foo/bar");
        ptr.push_back("/baz");
        assert_eq!(ptr, "/foo/bar/~1baz");

        let mut ptr = PointerBuf::from_tokens(["foo", "bar"]);
        assert_eq!(ptr.pop_back(), Some("bar".into()));
        assert_eq!(ptr, "/foo", "pointer should equal \"/foo\" after pop_back");
        assert_eq!(ptr.pop_back(), Some("foo".into()));
        assert_eq!(ptr, "", "pointer should equal \"\" after pop_back");
    }

    #[test]
    fn replace_token() {
        let mut ptr = PointerBuf::try_from("/test/token").unwrap();

        let res = ptr.replace(0, "new");
        assert!(res.is_ok());
        assert_eq!(ptr, "/new/token");

        let res = ptr.replace(3, "invalid");

        assert!(res.is_err());
    }

    #[test]
    fn push_pop_front() {
        let mut ptr = PointerBuf::default();
        assert_eq!(ptr, "");
        assert_eq!(ptr.count(), 0);
        ptr.push_front("bar");
        assert_eq!(ptr, "/bar");
        assert_eq!(ptr.count(), 1);

        ptr.push_front("foo");
        assert_eq!(ptr, "/foo/bar");
        assert_eq!(ptr.count(), 2);

        ptr.push_front("too");
        assert_eq!(ptr, "/too/foo/bar");
        assert_eq!(ptr.count(), 3);

        assert_eq!(ptr.pop_front(), Some("too".into()));
        assert_eq!(ptr, "/foo/bar");
        assert_eq!(ptr.count(), 2);

        assert_eq!(ptr.pop_back(), Some("bar".into()));
        assert_eq!(ptr, "/foo");
        assert_eq!(ptr.count(), 1);
        assert_eq!(ptr.pop_front(), Some("foo".into()));
        assert_eq!(ptr, "");
    }

    #[test]
    fn pop_front_works_with_empty_strings() {
        {
            let mut ptr = PointerBuf::from_tokens(["bar", "", ""]);

            assert_eq!(ptr.tokens().count(), 3);
            let mut token = ptr.pop_front();
            assert_eq!(token, Some(Token::new("bar")));
            assert_eq!(ptr.tokens().count(), 2);
            token = ptr.pop_front();
            assert_eq!(token, Some(Token::new("")));
            assert_eq!(ptr.tokens().count(), 1);
            token = ptr.pop_front();
            assert_eq!(token, Some(Token::new("")));
            assert_eq!(ptr.tokens().count(), 0);
            assert_eq!(ptr, Pointer::root());
        }
        {
            let mut ptr = PointerBuf::new();
            assert_eq!(ptr.tokens().count(), 0);
            ptr.push_back("");
            assert_eq!(ptr.tokens().count(), 1);
            ptr.pop_back();
            assert_eq!(ptr.tokens().count(), 0);
        }
        {
            let mut ptr = PointerBuf::new();
            let input = ["", "", "", "foo", "", "bar", "baz", ""];
            for (idx, &s) in input.iter().enumerate() {
                assert_eq!(ptr.tokens().count(), idx);
                ptr.push_back(s);
            }
            assert_eq!(ptr.tokens().count(), input.len());
            for (idx, s) in input.iter().enumerate() {
                assert_eq!(ptr.tokens().count(), 8 - idx);
                assert_eq!(ptr.front().unwrap().decoded(), *s);
                assert_eq!(ptr.pop_front().unwrap().decoded(), *s);
            }
            assert_eq!(ptr.tokens().count(), 0);
            assert!(ptr.front().is_none());
            assert!(ptr.pop_front().is_none());
        }
    }

    #[test]
    fn formatting() {
        assert_eq!(PointerBuf::from_tokens(["foo", "bar"]), "/foo/bar");
        assert_eq!(
            PointerBuf::from_tokens(["~/foo", "~bar", "/baz"]),
            "/~0~1foo/~0bar/~1baz"
        );
        assert_eq!(PointerBuf::from_tokens(["field", "", "baz"]), "/field//baz");
        assert_eq!(PointerBuf::default(), "");

        let ptr = PointerBuf::from_tokens(["foo", "bar", "baz"]);
        assert_eq!(ptr.to_string(), "/foo/bar/baz");
    }

    #[test]
    fn last() {
        let ptr = Pointer::from_static("/foo/bar");

        assert_eq!(ptr.last(), Some("bar".into()));

        let ptr = Pointer::from_static("/foo/bar/-");
        assert_eq!(ptr.last(), Some("-".into()));

        let ptr = Pointer::from_static("/-");
        assert_eq!(ptr.last(), Some("-".into()));

        let ptr = Pointer::root();
        assert_eq!(ptr.last(), None);

        let ptr = Pointer::from_static("/bar");
        assert_eq!(ptr.last(), Some("bar".into()));
    }

    #[test]
    fn first() {
        let ptr = Pointer::from_static("/foo/bar");
        assert_eq!(ptr.first(), Some("foo".into()));

        let ptr = Pointer::from_static("/foo/bar/-");
        assert_eq!(ptr.first(), Some("foo".into()));

        let ptr = Pointer::root();
        assert_eq!(ptr.first(), None);
    }

    #[test]
    fn pointerbuf_try_from() {
        let ptr = PointerBuf::from_tokens(["foo", "bar", "~/"]);

        assert_eq!(PointerBuf::try_from("/foo/bar/~0~1").unwrap(), ptr);
        let into: PointerBuf = "/foo/bar/~0~1".try_into().unwrap();
        assert_eq!(ptr, into);
    }

    #[test]
    #[cfg(all(feature = "serde", feature = "json"))]
    fn to_json_value() {
        use serde_json::Value;
        let ptr = Pointer::from_static("/foo/bar");
        assert_eq!(ptr.to_json_value(), Value::String(String::from("/foo/bar")));
    }

    #[cfg(all(feature = "resolve", feature = "json"))]
    #[test]
    fn resolve() {
        // full tests in resolve.rs
        use serde_json::json;
        let value = json!({
            "foo": {
                "bar": {
                    "baz": "qux"
                }
            }
        });
        let ptr = Pointer::from_static("/foo/bar/baz");
        let resolved = ptr.resolve(&value).unwrap();
        assert_eq!(resolved, &json!("qux"));
    }

    #[cfg(all(feature = "delete", feature = "json"))]
    #[test]
    fn delete() {
        use serde_json::json;
        let mut value = json!({
            "foo": {
                "bar": {
                    "baz": "qux"
                }
            }
        });
        let ptr = Pointer::from_static("/foo/bar/baz");
        let deleted = ptr.delete(&mut value).unwrap();
        assert_eq!(deleted, json!("qux"));
        assert_eq!(
            value,
            json!({
                "foo": {
                    "bar": {}
                }
            })
        );
    }

    #[cfg(all(feature = "assign", feature = "json"))]
    #[test]
    fn assign() {
        use serde_json::json;
        let mut value = json!({});
        let ptr = Pointer::from_static("/foo/bar");
        let replaced = ptr.assign(&mut value, json!("baz")).unwrap();
        assert_eq!(replaced, None);
        assert_eq!(
            value,
            json!({
                "foo": {
                    "bar": "baz"
                }
            })
        );
    }

    #[test]
    fn get() {
        let ptr = Pointer::from_static("/0/1/2/3/4/5/6/7/8/9");
        for i in 0..10 {
            assert_eq!(ptr.get(i).unwrap().decoded(), i.to_string());
        }
    }

    #[test]
    fn replace_token_success() {
        let mut ptr = PointerBuf::from_tokens(["foo", "bar", "baz"]);
        assert!(ptr.replace(1, "qux").is_ok());
        assert_eq!(ptr, PointerBuf::from_tokens(["foo", "qux", "baz"]));

        assert!(ptr.replace(0, "corge").is_ok());
        assert_eq!(ptr, PointerBuf::from_tokens(["corge", "qux", "baz"]));

        assert!(ptr.replace(2, "quux").is_ok());
        assert_eq!(ptr, PointerBuf::from_tokens(["corge", "qux", "quux"]));
    }

    #[test]
    fn replace_token_out_of_bounds() {
        let mut ptr = PointerBuf::from_tokens(["foo", "bar"]);
        assert!(ptr.replace(2, "baz").is_err());
        assert_eq!(ptr, PointerBuf::from_tokens(["foo", "bar"])); // Ensure subjectal pointer is unchanged
    }

    #[test]
    fn replace_token_with_empty_string() {
        let mut ptr = PointerBuf::from_tokens(["foo", "bar", "baz"]);
        assert!(ptr.replace(1, "").is_ok());
        assert_eq!(ptr, PointerBuf::from_tokens(["foo", "", "baz"]));
    }

    #[test]
    fn replace_token_in_empty_pointer() {
        let mut ptr = PointerBuf::default();
        assert!(ptr.replace(0, "foo").is_err());
        assert_eq!(ptr, PointerBuf::default()); // Ensure the pointer remains empty
    }

    #[test]
    fn pop_back_works_with_empty_strings() {
        {
            let mut ptr = PointerBuf::new();
            ptr.push_back("");
            ptr.push_back("");
            ptr.push_back("bar");

            assert_eq!(ptr.tokens().count(), 3);
            ptr.pop_back();
            assert_eq!(ptr.tokens().count(), 2);
            ptr.pop_back();
            assert_eq!(ptr.tokens().count(), 1);
            ptr.pop_back();
            assert_eq!(ptr.tokens().count(), 0);
            assert_eq!(ptr, PointerBuf::new());
        }
        {
            let mut ptr = PointerBuf::new();
            assert_eq!(ptr.tokens().count(), 0);
            ptr.push_back("");
            assert_eq!(ptr.tokens().count(), 1);
            ptr.pop_back();
            assert_eq!(ptr.tokens().count(), 0);
        }
        {
            let mut ptr = PointerBuf::new();
            let input = ["", "", "", "foo", "", "bar", "baz", ""];
            for (idx, &s) in input.iter().enumerate() {
                assert_eq!(ptr.tokens().count(), idx);
                ptr.push_back(s);
            }
            assert_eq!(ptr.tokens().count(), input.len());
            for (idx, s) in input.iter().enumerate().rev() {
                assert_eq!(ptr.tokens().count(), idx + 1);
                assert_eq!(ptr.back().unwrap().decoded(), *s);
                assert_eq!(ptr.pop_back().unwrap().decoded(), *s);
            }
            assert_eq!(ptr.tokens().count(), 0);
            assert!(ptr.back().is_none());
            assert!(ptr.pop_back().is_none());
        }
    }

    #[test]
    // `clippy::useless_asref` is tripping here because the `as_ref` is being
    // called on the same type (`&Pointer`). This is just to ensure that the
    // `as_ref` method is implemented correctly and stays that way.
    #[allow(clippy::useless_asref)]
    fn pointerbuf_as_ref_returns_pointer() {
        let ptr_str = "/foo/bar";
        let ptr = Pointer::from_static(ptr_str);
        let ptr_buf = ptr.to_buf();
        assert_eq!(ptr_buf.as_ref(), ptr);
        let r: &Pointer = ptr.as_ref();
        assert_eq!(ptr, r);

        let s: &str = ptr.as_ref();
        assert_eq!(s, ptr_str);

        let b: &[u8] = ptr.as_ref();
        assert_eq!(b, ptr_str.as_bytes());
    }

    #[test]
    fn from_tokens() {
        let ptr = PointerBuf::from_tokens(["foo", "bar", "baz"]);
        assert_eq!(ptr, "/foo/bar/baz");
    }

    #[test]
    fn pointer_borrow() {
        let ptr = Pointer::from_static("/foo/bar");
        let borrowed: &str = ptr.borrow();
        assert_eq!(borrowed, "/foo/bar");
    }

    #[test]
    #[cfg(feature = "json")]
    fn into_value() {
        use alloc::string::ToString;
        use serde_json::Value;
        let ptr = Pointer::from_static("/foo/bar");
        let value: Value = ptr.into();
        assert_eq!(value, Value::String("/foo/bar".to_string()));
    }

    #[test]
    fn intersect() {
        let base = Pointer::from_static("/foo/bar");
        let a = Pointer::from_static("/foo/bar/qux");
        let b = Pointer::from_static("/foo/bar");
        assert_eq!(a.intersection(b), base);

        let base = Pointer::from_static("");
        let a = Pointer::from_static("/foo");
        let b = Pointer::from_static("/");
        assert_eq!(a.intersection(b), base);

        let base = Pointer::from_static("");
        let a = Pointer::from_static("/fooqux");
        let b = Pointer::from_static("/foobar");
        assert_eq!(a.intersection(b), base);
    }

    #[quickcheck]
    fn qc_pop_and_push(mut ptr: PointerBuf) -> bool {
        let subjectal_ptr = ptr.clone();
        let mut tokens = Vec::with_capacity(ptr.count());
        while let Some(token) = ptr.pop_back() {
            tokens.push(token);
        }
        if ptr.count() != 0 || !ptr.is_root() || ptr.last().is_some() || ptr.first().is_some() {
            return false;
        }
        for token in tokens.drain(..) {
            ptr.push_front(token);
        }
        if ptr != subjectal_ptr {
            return false;
        }
        while let Some(token) = ptr.pop_front() {
            tokens.push(token);
        }
        if ptr.count() != 0 || !ptr.is_root() || ptr.last().is_some() || ptr.first().is_some() {
            return false;
        }
        for token in tokens {
            ptr.push_back(token);
        }
        ptr == subjectal_ptr
    }

    #[quickcheck]
    fn qc_split(ptr: PointerBuf) -> bool {
        if let Some((head, tail)) = ptr.split_front() {
            {
                let Some(first) = ptr.first() else {
                    return false;
                };
                if first != head {
                    return false;
                }
            }
            {
                let mut copy = ptr.clone();
                copy.pop_front();
                if copy != tail {
                    return false;
                }
            }
            {
                let mut buf = tail.to_buf();
                buf.push_front(head.clone());
                if buf != ptr {
                    return false;
                }
            }
            {
                let fmt = alloc::format!("/{}{tail}", head.encoded());
                if Pointer::parse(&fmt).unwrap() != ptr {
                    return false;
                }
            }
        } else {
            return ptr.is_root()
                && ptr.count() == 0
                && ptr.last().is_none()
                && ptr.first().is_none();
        }
        if let Some((head, tail)) = ptr.split_back() {
            {
                let Some(last) = ptr.last() else {
                    return false;
                };
                if last != tail {
                    return false;
                }
            }
            {
                let mut copy = ptr.clone();
                copy.pop_back();
                if copy != head {
                    return false;
                }
            }
            {
                let mut buf = head.to_buf();
                buf.push_back(tail.clone());
                if buf != ptr {
                    return false;
                }
            }
            {
                let fmt = alloc::format!("{head}/{}", tail.encoded());
                if Pointer::parse(&fmt).unwrap() != ptr {
                    return false;
                }
            }
            if Some(head) != ptr.parent() {
                return false;
            }
        } else {
            return ptr.is_root()
                && ptr.count() == 0
                && ptr.last().is_none()
                && ptr.first().is_none();
        }
        true
    }

    #[quickcheck]
    fn qc_from_tokens(tokens: Vec<String>) -> bool {
        let buf = PointerBuf::from_tokens(&tokens);
        let reconstructed: Vec<_> = buf.tokens().collect();
        reconstructed
            .into_iter()
            .zip(tokens)
            .all(|(a, b)| a.decoded() == b)
    }

    #[quickcheck]
    fn qc_intersection(base: PointerBuf, suffix_0: PointerBuf, suffix_1: PointerBuf) -> TestResult {
        if suffix_0.first() == suffix_1.first() {
            // base must be the true intersection
            return TestResult::discard();
        }
        let mut a = base.clone();
        a.append(&suffix_0);
        let mut b = base.clone();
        b.append(&suffix_1);
        let isect = a.intersection(&b);
        TestResult::from_bool(isect == base)
    }

    #[cfg(all(feature = "json", feature = "std", feature = "serde"))]
    #[test]
    fn serde() {
        use serde::Deserialize;
        let ptr = PointerBuf::from_tokens(["foo", "bar"]);
        let json = serde_json::to_string(&ptr).unwrap();
        assert_eq!(json, "\"/foo/bar\"");
        let deserialized: PointerBuf = serde_json::from_str(&json).unwrap();
        assert_eq!(deserialized, ptr);

        let ptr = Pointer::from_static("/foo/bar");
        let json = serde_json::to_string(&ptr).unwrap();
        assert_eq!(json, "\"/foo/bar\"");

        let mut de = serde_json::Deserializer::from_str("\"/foo/bar\"");
        let p = <&Pointer>::deserialize(&mut de).unwrap();
        assert_eq!(p, ptr);
        let s = serde_json::to_string(p).unwrap();
        assert_eq!(json, s);

        let invalid = serde_json::from_str::<&Pointer>("\"foo/bar\"");
        assert!(invalid.is_err());
    }

    #[test]
    fn to_owned() {
        let ptr = Pointer::from_static("/bread/crumbs");
        let buf = ptr.to_owned();
        assert_eq!(buf, "/bread/crumbs");
    }

    #[test]
    fn concat() {
        let ptr = Pointer::from_static("/foo");
        let barbaz = Pointer::from_static("/bar/baz");
        assert_eq!(ptr.concat(barbaz), "/foo/bar/baz");
    }

    #[test]
    fn with_leading_token() {
        let ptr = Pointer::from_static("/bar");
        let foobar = ptr.with_leading_token("foo");
        assert_eq!(foobar, "/foo/bar");
    }

    #[test]
    fn with_trailing_token() {
        let ptr = Pointer::from_static("/foo");
        let foobar = ptr.with_trailing_token("bar");
        assert_eq!(foobar, "/foo/bar");
    }

    #[test]
    fn len() {
        let ptr = Pointer::from_static("/foo/bar");
        assert_eq!(ptr.len(), 8);
        let mut ptr = ptr.to_buf();
        ptr.push_back("~");
        assert_eq!(ptr.len(), 11);
    }

    #[test]
    fn is_empty() {
        assert!(Pointer::from_static("").is_empty());
        assert!(!Pointer::from_static("/").is_empty());
    }

    #[test]
    #[allow(clippy::cmp_owned, unused_must_use)]
    fn partial_eq() {
        let ptr_string = String::from("/bread/crumbs");
        let ptr_str = "/bread/crumbs";
        let ptr = Pointer::from_static(ptr_str);
        let ptr_buf = ptr.to_buf();
        <&Pointer as PartialEq<&Pointer>>::eq(&ptr, &ptr);
        <Pointer as PartialEq<&str>>::eq(ptr, &ptr_str);
        <&Pointer as PartialEq<String>>::eq(&ptr, &ptr_string);
        <Pointer as PartialEq<String>>::eq(ptr, &ptr_string);
        <Pointer as PartialEq<PointerBuf>>::eq(ptr, &ptr_buf);
        <&str as PartialEq<Pointer>>::eq(&ptr_str, ptr);
        <String as PartialEq<Pointer>>::eq(&ptr_string, ptr);
        <str as PartialEq<Pointer>>::eq(ptr_str, ptr);
        <PointerBuf as PartialEq<str>>::eq(&ptr_buf, ptr_str);
        <PointerBuf as PartialEq<PointerBuf>>::eq(&ptr_buf, &ptr_buf);
        <PointerBuf as PartialEq<Pointer>>::eq(&ptr_buf, ptr);
        <Pointer as PartialEq<PointerBuf>>::eq(ptr, &ptr_buf);
        <PointerBuf as PartialEq<&Pointer>>::eq(&ptr_buf, &ptr);
        <PointerBuf as PartialEq<&str>>::eq(&ptr_buf, &ptr_str);
        <PointerBuf as PartialEq<String>>::eq(&ptr_buf, &ptr_string);
        <&Pointer as PartialEq<PointerBuf>>::eq(&ptr, &ptr_buf);
        <str as PartialEq<PointerBuf>>::eq(ptr_str, &ptr_buf);
        <&str as PartialEq<PointerBuf>>::eq(&ptr_str, &ptr_buf);
        <String as PartialEq<PointerBuf>>::eq(&ptr_string, &ptr_buf);
    }

    #[test]
    fn partial_ord() {
        let a_str = "/foo/bar";
        let a_string = a_str.to_string();
        let a_ptr = Pointer::from_static(a_str);
        let a_buf = a_ptr.to_buf();
        let b_str = "/foo/bar";
        let b_string = b_str.to_string();
        let b_ptr = Pointer::from_static(b_str);
        let b_buf = b_ptr.to_buf();
        let c_str = "/foo/bar/baz";
        let c_string = c_str.to_string();
        let c_ptr = Pointer::from_static(c_str);
        let c_buf = c_ptr.to_buf();

        assert!(<Pointer as PartialOrd<PointerBuf>>::lt(a_ptr, &c_buf));
        assert!(<PointerBuf as PartialOrd<Pointer>>::lt(&a_buf, c_ptr));
        assert!(<String as PartialOrd<Pointer>>::lt(&a_string, c_ptr));
        assert!(<str as PartialOrd<Pointer>>::lt(a_str, c_ptr));
        assert!(<str as PartialOrd<PointerBuf>>::lt(a_str, &c_buf));
        assert!(<&str as PartialOrd<Pointer>>::lt(&a_str, c_ptr));
        assert!(<&str as PartialOrd<PointerBuf>>::lt(&a_str, &c_buf));
        assert!(<&Pointer as PartialOrd<PointerBuf>>::lt(&a_ptr, &c_buf));
        assert!(<&Pointer as PartialOrd<&str>>::lt(&b_ptr, &c_str));
        assert!(<Pointer as PartialOrd<String>>::lt(a_ptr, &c_string));
        assert!(<PointerBuf as PartialOrd<&str>>::lt(&a_buf, &c_str));
        assert!(<PointerBuf as PartialOrd<String>>::lt(&a_buf, &c_string));
        assert!(a_ptr < c_buf);
        assert!(c_buf > a_ptr);
        assert!(a_buf < c_ptr);
        assert!(a_ptr < c_buf);
        assert!(a_ptr < c_ptr);
        assert!(a_ptr <= c_ptr);
        assert!(c_ptr > a_ptr);
        assert!(c_ptr >= a_ptr);
        assert!(a_ptr == b_ptr);
        assert!(a_ptr <= b_ptr);
        assert!(a_ptr >= b_ptr);
        assert!(a_string < c_buf);
        assert!(a_string <= c_buf);
        assert!(c_string > a_buf);
        assert!(c_string >= a_buf);
        assert!(a_string == b_buf);
        assert!(a_ptr < c_buf);
        assert!(a_ptr <= c_buf);
        assert!(c_ptr > a_buf);
        assert!(c_ptr >= a_buf);
        assert!(a_ptr == b_buf);
        assert!(a_ptr <= b_buf);
        assert!(a_ptr >= b_buf);
        assert!(a_ptr < c_buf);
        assert!(c_ptr > b_string);
        // couldn't inline this
        #[allow(clippy::nonminimal_bool)]
        let not = !(a_ptr > c_buf);
        assert!(not);
    }

    #[test]
    fn intersection() {
        struct Test {
            base: &'static str,
            a_suffix: &'static str,
            b_suffix: &'static str,
        }

        let tests = [
            Test {
                base: "",
                a_suffix: "/",
                b_suffix: "/a/b/c",
            },
            Test {
                base: "",
                a_suffix: "",
                b_suffix: "",
            },
            Test {
                base: "/a",
                a_suffix: "/",
                b_suffix: "/suffix",
            },
            Test {
                base: "/a",
                a_suffix: "/suffix",
                b_suffix: "",
            },
            Test {
                base: "/¦\\>‶“lv\u{eedd}\u{8a}Y\n\u{99}𘐷vT\n\u{4}Hª\\ 嗱\\Yl6Y`\"1\u{6dd}\u{17}\0\u{10}ዄ8\"Z닍6i)V;\u{6be4c}\u{b}\u{59836}`\u{1e}㑍§~05\u{1d}\u{8a}[뵔\u{437c3}j\u{f326}\";*\u{c}*U\u{1b}\u{8a}I\u{4}묁",
                a_suffix: "/Y\u{2064}",
                b_suffix: "",
            }
        ];

        for Test {
            base,
            a_suffix,
            b_suffix,
        } in tests
        {
            let base = PointerBuf::parse(base).expect(&format!("failed to parse ${base}"));
            let mut a = base.clone();
            let mut b = base.clone();
            a.append(PointerBuf::parse(a_suffix).unwrap());
            b.append(PointerBuf::parse(b_suffix).unwrap());
            let intersection = a.intersection(&b);
            assert_eq!(intersection, base);
        }
    }

    #[test]
    fn into_iter() {
        use core::iter::IntoIterator;

        let ptr = PointerBuf::from_tokens(["foo", "bar", "baz"]);
        let tokens: Vec<Token> = ptr.into_iter().collect();
        let from_tokens = PointerBuf::from_tokens(tokens);
        assert_eq!(ptr, from_tokens);

        let ptr = Pointer::from_static("/foo/bar/baz");
        let tokens: Vec<_> = ptr.into_iter().collect();
        assert_eq!(ptr, PointerBuf::from_tokens(tokens));
    }

    #[test]
    fn from_str() {
        let p = PointerBuf::from_str("/foo/bar").unwrap();
        assert_eq!(p, "/foo/bar");
    }

    #[test]
    fn from_token() {
        let p = PointerBuf::from(Token::new("foo"));
        assert_eq!(p, "/foo");
    }

    #[test]
    fn from_usize() {
        let p = PointerBuf::from(0);
        assert_eq!(p, "/0");
    }

    #[test]
    fn borrow() {
        let ptr = PointerBuf::from_tokens(["foo", "bar"]);
        let borrowed: &Pointer = ptr.borrow();
        assert_eq!(borrowed, "/foo/bar");
    }

    #[test]
    fn from_box_to_buf() {
        let subjectal = PointerBuf::parse("/foo/bar/0").unwrap();
        let boxed: Box<Pointer> = subjectal.clone().into();
        let unboxed = boxed.into_buf();
        assert_eq!(subjectal, unboxed);
    }

    #[test]
    fn default_lifetime_is_correct() {
        // if this compiles, we're good
        fn or_default(ptr: &Pointer) -> &Pointer {
            Some(ptr).unwrap_or_default()
        }
        // just to satisfy codecov and clippy
        or_default(Pointer::root());
    }
}
