//! Error reporting data structures and miette integration.
//!

use alloc::{boxed::Box, string::String};
use core::{fmt, ops::Deref};

/// Implemented by errors which can be converted into a [`Report`].
pub trait Diagnostic: Sized {
    /// The value which caused the error.
    type Subject: Deref;

    /// Combine the error with its subject to generate a [`Report`].
    fn into_report(self, subject: impl Into<Self::Subject>) -> Report<Self> {
        Report::new(self, subject.into())
    }

    /// The docs.rs URL for this error
    fn url() -> &'static str;

    /// Returns the label for the given [`Subject`] if applicable.
    fn labels(&self, subject: &Self::Subject) -> Option<Box<dyn Iterator<Item = Label>>>;
}

/// A label for a span within a json pointer or malformed string.
///
#[derive(Debug, PartialEq, Eq, Clone)]
pub struct Label {
    text: String,
    offset: usize,
    len: usize,
}

impl Label {
    /// Creates a new instance of a [`Label`] from its parts
    pub fn new(text: String, offset: usize, len: usize) -> Self {
        Self { text, offset, len }
    }
}

#[cfg(feature = "miette")]
impl From<Label> for miette::LabeledSpan {
    fn from(value: Label) -> Self {
        miette::LabeledSpan::new(Some(value.text), value.offset, value.len)
    }
}

/// An enriched error wrapper which captures the original error and the subject
/// (`String` or `PointerBuf`) which caused it, for reporting purposes.
///
/// This type serves two roles:
///
/// 1. **[`PointerBuf::parse`]**: Captures the [`ParseError`] along with the
///    input `String`.
///
/// 2. **Reporting:** Provides enriched reporting capabilities, including
///    (optional) `miette` integration, for `ParseError` and associated  errors
///    of `assign::Assign` and `resolve::Resolve` implementations
#[derive(Debug, Clone)]
pub struct Report<T: Diagnostic> {
    source: T,
    subject: T::Subject,
}

impl<T: Diagnostic> Report<T> {
    fn new(source: T, subject: T::Subject) -> Self {
        Self { source, subject }
    }

    /// The value which caused the error.
    pub fn subject(&self) -> &<T::Subject as Deref>::Target {
        &self.subject
    }

    /// The error which occurred.
    pub fn original(&self) -> &T {
        &self.source
    }

    /// The original parts of the [`Report`].
    pub fn decompose(self) -> (T, T::Subject) {
        (self.source, self.subject)
    }

    /// Consumes the [`Report`] and returns the original error `T`.
    pub fn into_original(self) -> T {
        self.source
    }
}

impl<T: Diagnostic> core::ops::Deref for Report<T> {
    type Target = T;

    fn deref(&self) -> &Self::Target {
        &self.source
    }
}

impl<T: Diagnostic + fmt::Display> fmt::Display for Report<T> {
    fn fmt(&self, f: &mut core::fmt::Formatter<'_>) -> core::fmt::Result {
        fmt::Display::fmt(&self.source, f)
    }
}

#[cfg(feature = "std")]
impl<T> std::error::Error for Report<T>
where
    T: Diagnostic + fmt::Debug + std::error::Error + 'static,
    T::Subject: fmt::Debug,
{
    fn source(&self) -> Option<&(dyn std::error::Error + 'static)> {
        self.source.source()
    }
}

#[cfg(feature = "miette")]
impl<T> miette::Diagnostic for Report<T>
where
    T: Diagnostic + fmt::Debug + std::error::Error + 'static,
    T::Subject: fmt::Debug + miette::SourceCode,
{
    fn url<'a>(&'a self) -> Option<Box<dyn core::fmt::Display + 'a>> {
        Some(Box::new(T::url()))
    }

    fn source_code(&self) -> Option<&dyn miette::SourceCode> {
        Some(&self.subject)
    }

    fn labels(&self) -> Option<Box<dyn Iterator<Item = miette::LabeledSpan> + '_>> {
        Some(Box::new(T::labels(self, &self.subject)?.map(Into::into)))
    }
}

macro_rules! diagnostic_url {
    (enum $type:ident) => {
        $crate::diagnostic::diagnostic_url!("enum", "", $type)
    };
    (struct $type:ident) => {
        $crate::diagnostic::diagnostic_url!("struct", "", $type)
    };
    (enum $mod:ident::$type:ident) => {
        $crate::diagnostic::diagnostic_url!("enum", concat!("/", stringify!($mod)), $type)
    };
    (struct $mod:ident::$type:ident) => {
        $crate::diagnostic::diagnostic_url!("struct", concat!("/", stringify!($mod)), $type)
    };
    ($kind:literal, $mod:expr, $type:ident) => {
        concat!(
            "https://docs.rs/jsonptr/",
            env!("CARGO_PKG_VERSION"),
            "/jsonptr",
            $mod,
            "/",
            $kind,
            ".",
            stringify!($type),
            ".html",
        )
    };
}
pub(crate) use diagnostic_url;

/// An extension trait for `Result<_, E>`, where `E` is an implementation of
/// [`Diagnostic`], that converts `E` into [`Report<E>`](`Report`), yielding
/// `Result<_, Report<E>>`.
pub trait Diagnose<'s, T>: private::Sealed {
    /// The error type returned from `diagnose` and `diagnose_with`.
    type Error: Diagnostic;

    /// If the `Result` is an `Err`, converts the error into a [`Report`] with
    /// the supplied `subject`.
    ///
    /// ## Example
    /// ```
    /// use core::any::{Any, TypeId};
    /// use jsonptr::{Pointer, ParseError, Diagnose, Report};
    /// let subj = "invalid/pointer";
    /// let err = Pointer::parse(subj).diagnose(subj).unwrap_err();
    /// assert_eq!(err.type_id(),TypeId::of::<Report<ParseError>>());
    /// ```
    #[allow(clippy::missing_errors_doc)]
    fn diagnose(
        self,
        subject: impl Into<<Self::Error as Diagnostic>::Subject>,
    ) -> Result<T, Report<Self::Error>>;

    /// If the `Result` is an `Err`, converts the error into a [`Report`] with
    /// the subject returned from `f`
    ///
    /// ## Example
    /// ```
    /// use core::any::{Any, TypeId};
    /// use jsonptr::{Pointer, ParseError, Diagnose, Report};
    /// let subj = "invalid/pointer";
    /// let err = Pointer::parse(subj).diagnose_with(|| subj).unwrap_err();
    ///
    /// assert_eq!(err.type_id(),TypeId::of::<Report<ParseError>>());
    #[allow(clippy::missing_errors_doc)]
    fn diagnose_with<F, S>(self, f: F) -> Result<T, Report<Self::Error>>
    where
        F: FnOnce() -> S,
        S: Into<<Self::Error as Diagnostic>::Subject>;
}

impl<T, E> Diagnose<'_, T> for Result<T, E>
where
    E: Diagnostic,
{
    type Error = E;

    fn diagnose(
        self,
        subject: impl Into<<Self::Error as Diagnostic>::Subject>,
    ) -> Result<T, Report<Self::Error>> {
        self.map_err(|error| error.into_report(subject.into()))
    }

    fn diagnose_with<F, S>(self, f: F) -> Result<T, Report<Self::Error>>
    where
        F: FnOnce() -> S,
        S: Into<<Self::Error as Diagnostic>::Subject>,
    {
        self.map_err(|error| error.into_report(f()))
    }
}

mod private {
    pub trait Sealed {}
    impl<T, E> Sealed for Result<T, E> {}
}

#[cfg(test)]
mod tests {
    use super::*;
    use crate::{Pointer, PointerBuf};
    #[test]
    #[cfg(all(
        feature = "assign",
        feature = "miette",
        feature = "serde",
        feature = "json"
    ))]
    fn assign_error() {
        let mut v = serde_json::json!({"foo": {"bar": ["0"]}});
        let ptr = PointerBuf::parse("/foo/bar/invalid/cannot/reach").unwrap();
        let report = ptr.assign(&mut v, "qux").diagnose(ptr).unwrap_err();
        println!("{:?}", miette::Report::from(report));

        let ptr = PointerBuf::parse("/foo/bar/3/cannot/reach").unwrap();
        let report = ptr.assign(&mut v, "qux").diagnose(ptr).unwrap_err();
        println!("{:?}", miette::Report::from(report));
    }

    #[test]
    #[cfg(all(
        feature = "resolve",
        feature = "miette",
        feature = "serde",
        feature = "json"
    ))]
    fn resolve_error() {
        let v = serde_json::json!({"foo": {"bar": ["0"]}});
        let ptr = PointerBuf::parse("/foo/bar/invalid/cannot/reach").unwrap();
        let report = ptr.resolve(&v).diagnose(ptr).unwrap_err();
        println!("{:?}", miette::Report::from(report));

        let ptr = PointerBuf::parse("/foo/bar/3/cannot/reach").unwrap();
        let report = ptr.resolve(&v).diagnose(ptr).unwrap_err();
        println!("{:?}", miette::Report::from(report));
    }

    #[test]
    #[cfg(feature = "miette")]
    fn parse_error() {
        let invalid = "/foo/bar/invalid~3~encoding/cannot/reach";
        let report = Pointer::parse(invalid).diagnose(invalid).unwrap_err();

        println!("{:?}", miette::Report::from(report));

        let report = PointerBuf::parse("/foo/bar/invalid~3~encoding/cannot/reach").unwrap_err();

        let report = miette::Report::from(report);
        println!("{report:?}");
    }
}
