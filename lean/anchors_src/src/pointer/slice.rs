use super::Pointer;
use crate::Token;
use core::ops::Bound;

pub trait PointerIndex<'p>: private::Sealed {
    type Output: 'p;

    fn get(self, pointer: &'p Pointer) -> Option<Self::Output>;
}

impl<'p> PointerIndex<'p> for usize {
    type Output = Token<'p>;

    fn get(self, pointer: &'p Pointer) -> Option<Self::Output> {
        pointer.tokens().nth(self)
    }
}

impl<'p> PointerIndex<'p> for core::ops::Range<usize> {
    type Output = &'p Pointer;

    fn get(self, pointer: &'p Pointer) -> Option<Self::Output> {
        if self.end < self.start {
            // never valid
            return None;
        }

        let mut idx = 0;
        let mut offset = 0;
        let mut start_offset = None;
        let mut end_offset = None;

        for token in pointer.tokens() {
            if idx == self.start {
                start_offset = Some(offset);
            }
            if idx == self.end {
                end_offset = Some(offset);
                break;
            }
            idx += 1;
            // also include the `/` separator
            offset += token.encoded().len() + 1;
        }

        // edge case where end is last token index + 1
        // this is valid because range is exclusive
        if idx == self.end {
            end_offset = Some(offset);
        }

        let slice = &pointer.0.as_bytes()[start_offset?..end_offset?];
        // SAFETY: start and end offsets are token boundaries, so the slice is
        // valid utf-8 (and also a valid json pointer!)
        Some(unsafe { Pointer::new_unchecked(core::str::from_utf8_unchecked(slice)) })
    }
}

impl<'p> PointerIndex<'p> for core::ops::RangeFrom<usize> {
    type Output = &'p Pointer;

    fn get(self, pointer: &'p Pointer) -> Option<Self::Output> {
        {
            let mut offset = 0;
            let mut start_offset = None;

            for (idx, token) in pointer.tokens().enumerate() {
                if idx == self.start {
                    start_offset = Some(offset);
                    break;
                }
                // also include the `/` separator
                offset += token.encoded().len() + 1;
            }

            let slice = &pointer.0.as_bytes()[start_offset?..];
            // SAFETY: start offset is token boundary, so the slice is valid
            // utf-8 (and also a valid json pointer!)
            Some(unsafe { Pointer::new_unchecked(core::str::from_utf8_unchecked(slice)) })
        }
    }
}

impl<'p> PointerIndex<'p> for core::ops::RangeTo<usize> {
    type Output = &'p Pointer;

    fn get(self, pointer: &'p Pointer) -> Option<Self::Output> {
        {
            let mut idx = 0;
            let mut offset = 0;
            let mut end_offset = None;

            for token in pointer.tokens() {
                if idx == self.end {
                    end_offset = Some(offset);
                    break;
                }
                idx += 1;
                // also include the `/` separator
                offset += token.encoded().len() + 1;
            }

            // edge case where end is last token index + 1
            // this is valid because range is exclusive
            if idx == self.end {
                end_offset = Some(offset);
            }

            let slice = &pointer.0.as_bytes()[..end_offset?];
            // SAFETY: start and end offsets are token boundaries, so the slice is
            // valid utf-8 (and also a valid json pointer!)
            Some(unsafe { Pointer::new_unchecked(core::str::from_utf8_unchecked(slice)) })
        }
    }
}

impl<'p> PointerIndex<'p> for core::ops::RangeFull {
    type Output = &'p Pointer;

    fn get(self, pointer: &'p Pointer) -> Option<Self::Output> {
        Some(pointer)
    }
}

impl<'p> PointerIndex<'p> for core::ops::RangeInclusive<usize> {
    type Output = &'p Pointer;

    fn get(self, pointer: &'p Pointer) -> Option<Self::Output> {
        let (start, end) = self.into_inner();
        if end < start {
            // never valid
            return None;
        }

        let mut offset = 0;
        let mut start_offset = None;
        let mut end_offset = None;

        for (idx, token) in pointer.tokens().enumerate() {
            if idx == start {
                start_offset = Some(offset);
            }
            // also include the `/` separator
            offset += token.encoded().len() + 1;
            // since the range is inclusive, we wish to slice up until the end
            // of the token whose index is `end`, so we increment offset first
            // before checking for a match
            if idx == end {
                end_offset = Some(offset);
                break;
            }
        }

        // notice that we don't use an inclusive range here, because we already
        // acounted for the included end token when computing `end_offset` above
        let slice = &pointer.0.as_bytes()[start_offset?..end_offset?];
        // SAFETY: start and end offsets are token boundaries, so the slice is
        // valid utf-8 (and also a valid json pointer!)
        Some(unsafe { Pointer::new_unchecked(core::str::from_utf8_unchecked(slice)) })
    }
}

impl<'p> PointerIndex<'p> for core::ops::RangeToInclusive<usize> {
    type Output = &'p Pointer;

    fn get(self, pointer: &'p Pointer) -> Option<Self::Output> {
        {
            let mut offset = 0;
            let mut end_offset = None;

            for (idx, token) in pointer.tokens().enumerate() {
                // also include the `/` separator
                offset += token.encoded().len() + 1;
                // since the range is inclusive, we wish to slice up until the end
                // of the token whose index is `end`, so we increment offset first
                // before checking for a match
                if idx == self.end {
                    end_offset = Some(offset);
                    break;
                }
            }

            // notice that we don't use an inclusive range here, because we already
            // acounted for the included end token when computing `end_offset` above
            let slice = &pointer.0.as_bytes()[..end_offset?];
            // SAFETY: start and end offsets are token boundaries, so the slice is
            // valid utf-8 (and also a valid json pointer!)
            Some(unsafe { Pointer::new_unchecked(core::str::from_utf8_unchecked(slice)) })
        }
    }
}

impl<'p> PointerIndex<'p> for (Bound<usize>, Bound<usize>) {
    type Output = &'p Pointer;

    fn get(self, pointer: &'p Pointer) -> Option<Self::Output> {
        match self {
            (Bound::Included(start), Bound::Included(end)) => pointer.get(start..=end),
            (Bound::Included(start), Bound::Excluded(end)) => pointer.get(start..end),
            (Bound::Included(start), Bound::Unbounded) => pointer.get(start..),
            (Bound::Excluded(start), Bound::Included(end)) => pointer.get(start.checked_add(1)?..=end),
            (Bound::Excluded(start), Bound::Excluded(end)) => pointer.get(start.checked_add(1)?..end),
            (Bound::Excluded(start), Bound::Unbounded) => pointer.get(start.checked_add(1)?..),
            (Bound::Unbounded, Bound::Included(end)) => pointer.get(..=end),
            (Bound::Unbounded, Bound::Excluded(end)) => pointer.get(..end),
            (Bound::Unbounded, Bound::Unbounded) => pointer.get(..),
        }
    }
}

mod private {
    use core::ops;

    pub trait Sealed {}
    impl Sealed for usize {}
    impl Sealed for ops::Range<usize> {}
    impl Sealed for ops::RangeTo<usize> {}
    impl Sealed for ops::RangeFrom<usize> {}
    impl Sealed for ops::RangeFull {}
    impl Sealed for ops::RangeInclusive<usize> {}
    impl Sealed for ops::RangeToInclusive<usize> {}
    impl Sealed for (ops::Bound<usize>, ops::Bound<usize>) {}
}

#[cfg(test)]
mod tests {
    use core::ops::Bound;

    use crate::{Pointer, Token};

    #[test]
    fn get_single() {
        let ptr = Pointer::from_static("/foo/bar/qux");
        let s = ptr.get(0);
        assert_eq!(s, Some(Token::new("foo")));
        let s = ptr.get(1);
        assert_eq!(s, Some(Token::new("bar")));
        let s = ptr.get(2);
        assert_eq!(s, Some(Token::new("qux")));
        let s = ptr.get(3);
        assert_eq!(s, None);

        let ptr = Pointer::from_static("/");
        let s = ptr.get(0);
        assert_eq!(s, Some(Token::new("")));
        let s = ptr.get(1);
        assert_eq!(s, None);

        let ptr = Pointer::from_static("");
        let s = ptr.get(0);
        assert_eq!(s, None);
        let s = ptr.get(1);
        assert_eq!(s, None);
    }

    #[allow(clippy::reversed_empty_ranges)]
    #[test]
    fn get_range() {
        let ptr = Pointer::from_static("/foo/bar/qux");
        let s = ptr.get(0..3);
        assert_eq!(s, Some(ptr));
        let s = ptr.get(0..2);
        assert_eq!(s, Some(Pointer::from_static("/foo/bar")));
        let s = ptr.get(0..1);
        assert_eq!(s, Some(Pointer::from_static("/foo")));
        let s = ptr.get(0..0);
        assert_eq!(s, Some(Pointer::from_static("")));
        let s = ptr.get(1..3);
        assert_eq!(s, Some(Pointer::from_static("/bar/qux")));
        let s = ptr.get(1..2);
        assert_eq!(s, Some(Pointer::from_static("/bar")));
        let s = ptr.get(1..1);
        assert_eq!(s, Some(Pointer::from_static("")));
        let s = ptr.get(1..0);
        assert_eq!(s, None);
        let s = ptr.get(0..4);
        assert_eq!(s, None);
        let s = ptr.get(2..4);
        assert_eq!(s, None);

        let ptr = Pointer::from_static("/");
        let s = ptr.get(0..1);
        assert_eq!(s, Some(ptr));
        let s = ptr.get(0..0);
        assert_eq!(s, Some(Pointer::root()));
        let s = ptr.get(1..0);
        assert_eq!(s, None);
        let s = ptr.get(0..2);
        assert_eq!(s, None);
        let s = ptr.get(1..2);
        assert_eq!(s, None);
        let s = ptr.get(1..1);
        assert_eq!(s, None);

        let ptr = Pointer::root();
        let s = ptr.get(0..1);
        assert_eq!(s, None);
        let s = ptr.get(0..0);
        assert_eq!(s, None);
        let s = ptr.get(1..0);
        assert_eq!(s, None);
        let s = ptr.get(1..1);
        assert_eq!(s, None);
    }

    #[test]
    fn get_from_range() {
        let ptr = Pointer::from_static("/foo/bar/qux");
        let s = ptr.get(0..);
        assert_eq!(s, Some(ptr));
        let s = ptr.get(1..);
        assert_eq!(s, Some(Pointer::from_static("/bar/qux")));
        let s = ptr.get(2..);
        assert_eq!(s, Some(Pointer::from_static("/qux")));
        let s = ptr.get(3..);
        assert_eq!(s, None);

        let ptr = Pointer::from_static("/");
        let s = ptr.get(0..);
        assert_eq!(s, Some(ptr));
        let s = ptr.get(1..);
        assert_eq!(s, None);

        let ptr = Pointer::from_static("");
        let s = ptr.get(0..);
        assert_eq!(s, None);
    }

    #[test]
    fn get_to_range() {
        let ptr = Pointer::from_static("/foo/bar/qux");
        let s = ptr.get(..4);
        assert_eq!(s, None);
        let s = ptr.get(..3);
        assert_eq!(s, Some(ptr));
        let s = ptr.get(..2);
        assert_eq!(s, Some(Pointer::from_static("/foo/bar")));
        let s = ptr.get(..1);
        assert_eq!(s, Some(Pointer::from_static("/foo")));
        let s = ptr.get(..0);
        assert_eq!(s, Some(Pointer::from_static("")));

        let ptr = Pointer::from_static("/");
        let s = ptr.get(..0);
        assert_eq!(s, Some(Pointer::from_static("")));
        let s = ptr.get(..1);
        assert_eq!(s, Some(ptr));
        let s = ptr.get(..2);
        assert_eq!(s, None);

        let ptr = Pointer::from_static("");
        let s = ptr.get(..0);
        assert_eq!(s, Some(ptr));
        let s = ptr.get(..1);
        assert_eq!(s, None);
    }

    #[test]
    fn get_full_range() {
        let ptr = Pointer::from_static("/foo/bar");
        let s = ptr.get(..);
        assert_eq!(s, Some(ptr));

        let ptr = Pointer::from_static("/");
        let s = ptr.get(..);
        assert_eq!(s, Some(ptr));

        let ptr = Pointer::from_static("");
        let s = ptr.get(..);
        assert_eq!(s, Some(ptr));
    }

    #[allow(clippy::reversed_empty_ranges)]
    #[test]
    fn get_range_inclusive() {
        let ptr = Pointer::from_static("/foo/bar/qux");
        let s = ptr.get(0..=3);
        assert_eq!(s, None);
        let s = ptr.get(0..=2);
        assert_eq!(s, Some(ptr));
        let s = ptr.get(0..=1);
        assert_eq!(s, Some(Pointer::from_static("/foo/bar")));
        let s = ptr.get(0..=0);
        assert_eq!(s, Some(Pointer::from_static("/foo")));
        let s = ptr.get(1..=3);
        assert_eq!(s, None);
        let s = ptr.get(1..=2);
        assert_eq!(s, Some(Pointer::from_static("/bar/qux")));
        let s = ptr.get(1..=1);
        assert_eq!(s, Some(Pointer::from_static("/bar")));
        let s = ptr.get(1..=0);
        assert_eq!(s, None);

        let ptr = Pointer::from_static("/");
        let s = ptr.get(0..=0);
        assert_eq!(s, Some(ptr));
        let s = ptr.get(1..=0);
        assert_eq!(s, None);
        let s = ptr.get(0..=1);
        assert_eq!(s, None);
        let s = ptr.get(1..=1);
        assert_eq!(s, None);

        let ptr = Pointer::root();
        let s = ptr.get(0..=1);
        assert_eq!(s, None);
        let s = ptr.get(0..=0);
        assert_eq!(s, None);
        let s = ptr.get(1..=0);
        assert_eq!(s, None);
        let s = ptr.get(1..=1);
        assert_eq!(s, None);
    }

    #[test]
    fn get_to_range_inclusive() {
        let ptr = Pointer::from_static("/foo/bar/qux");
        let s = ptr.get(..=3);
        assert_eq!(s, None);
        let s = ptr.get(..=2);
        assert_eq!(s, Some(ptr));
        let s = ptr.get(..=1);
        assert_eq!(s, Some(Pointer::from_static("/foo/bar")));
        let s = ptr.get(..=0);
        assert_eq!(s, Some(Pointer::from_static("/foo")));

        let ptr = Pointer::from_static("/");
        let s = ptr.get(..=0);
        assert_eq!(s, Some(ptr));
        let s = ptr.get(..=1);
        assert_eq!(s, None);

        let ptr = Pointer::from_static("");
        let s = ptr.get(..=0);
        assert_eq!(s, None);
        let s = ptr.get(..=1);
        assert_eq!(s, None);
    }

    #[test]
    fn get_by_explicit_bounds() {
        let ptr = Pointer::from_static("/foo/bar/qux");
        let s = ptr.get((Bound::Excluded(0), Bound::Included(2)));
        assert_eq!(s, Some(Pointer::from_static("/bar/qux")));
        let s = ptr.get((Bound::Excluded(0), Bound::Excluded(2)));
        assert_eq!(s, Some(Pointer::from_static("/bar")));
        let s = ptr.get((Bound::Excluded(0), Bound::Unbounded));
        assert_eq!(s, Some(Pointer::from_static("/bar/qux")));
        let s = ptr.get((Bound::Included(0), Bound::Included(2)));
        assert_eq!(s, Some(Pointer::from_static("/foo/bar/qux")));
        let s = ptr.get((Bound::Included(0), Bound::Excluded(2)));
        assert_eq!(s, Some(Pointer::from_static("/foo/bar")));
        let s = ptr.get((Bound::Included(0), Bound::Unbounded));
        assert_eq!(s, Some(Pointer::from_static("/foo/bar/qux")));
        let s = ptr.get((Bound::Unbounded, Bound::Included(2)));
        assert_eq!(s, Some(Pointer::from_static("/foo/bar/qux")));
        let s = ptr.get((Bound::Unbounded, Bound::Excluded(2)));
        assert_eq!(s, Some(Pointer::from_static("/foo/bar")));
        let s = ptr.get((Bound::Unbounded, Bound::Unbounded));
        assert_eq!(s, Some(Pointer::from_static("/foo/bar/qux")));

        let ptr = Pointer::from_static("/foo/bar");
        let s = ptr.get((Bound::Excluded(0), Bound::Included(2)));
        assert_eq!(s, None);
        let s = ptr.get((Bound::Excluded(0), Bound::Excluded(2)));
        assert_eq!(s, Some(Pointer::from_static("/bar")));
        let s = ptr.get((Bound::Excluded(0), Bound::Unbounded));
        assert_eq!(s, Some(Pointer::from_static("/bar")));
        let s = ptr.get((Bound::Included(0), Bound::Included(2)));
        assert_eq!(s, None);
        let s = ptr.get((Bound::Included(0), Bound::Excluded(2)));
        assert_eq!(s, Some(ptr));
        let s = ptr.get((Bound::Included(0), Bound::Unbounded));
        assert_eq!(s, Some(ptr));
        let s = ptr.get((Bound::Unbounded, Bound::Included(2)));
        assert_eq!(s, None);
        let s = ptr.get((Bound::Unbounded, Bound::Excluded(2)));
        assert_eq!(s, Some(ptr));
        let s = ptr.get((Bound::Unbounded, Bound::Unbounded));
        assert_eq!(s, Some(ptr));

        // testing only the start excluded case a bit more exhaustively since
        // other cases just delegate directly (so are covered by other tests)
        let ptr = Pointer::from_static("/");
        let s = ptr.get((Bound::Excluded(0), Bound::Included(0)));
        assert_eq!(s, None);
        let s = ptr.get((Bound::Excluded(0), Bound::Excluded(0)));
        assert_eq!(s, None);
        let s = ptr.get((Bound::Excluded(0), Bound::Unbounded));
        assert_eq!(s, None);

        let ptr = Pointer::from_static("");
        let s = ptr.get((Bound::Excluded(0), Bound::Included(0)));
        assert_eq!(s, None);
        let s = ptr.get((Bound::Excluded(0), Bound::Excluded(0)));
        assert_eq!(s, None);
        let s = ptr.get((Bound::Excluded(0), Bound::Unbounded));
        assert_eq!(s, None);
    }
}
