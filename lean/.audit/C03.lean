import Jp.Props.C03
#print axioms Jp.C03.new_encoded
#print axioms Jp.C03.decoded_new
#print axioms Jp.C03.dec_enc
#print axioms Jp.C03.enc_valid
#print axioms Jp.C03.enc_dec
#print axioms Jp.C03.enc_injective
#print axioms Jp.C03.decoded_eq_dec
#print axioms Jp.C03.fromEncoded_ok_iff
#print axioms Jp.C03.fromEncoded_verbatim
#print axioms Jp.C03.fromEncoded_decoded
#print axioms Jp.C03.fromEncoded_reencode
#print axioms Jp.C03.fromEncoded_err_truthful
#print axioms Jp.C03.fromEncoded_no_panic
#print axioms Jp.C03.new_fresh_iff
#print axioms Jp.C03.decoded_fresh_iff
